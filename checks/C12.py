"""C12 — post-processors locate every point and interpolate the solution faithfully.

stage A: translator tools/translate_locate.py reads the outward-search loop headers of PostProcessor::InTriangle and
         FPProc::InTriangle into Generated/Locate.lean; Properties/C12.lean: with that many rounds the hi/lo search probes
         every element for every mesh size and seed; the index-ordered side test is edge consistent in any ordered
         arithmetic; interpolant = nodal value at nodes, exact for affine fields, continuous across edges
stage B: the interpolated potential returned by the real post-processors (femmcli xo_getpointvalues) vs Model/Locate.lean
         `interp` at Float on the containing element
stage P: exact-arithmetic oracle on the solution-file mesh: query sequences in random order (the search is seeded by the
         previous hit) over interior points, edge points, vertices, near-boundary and outside points — found <=> the point lies
         in the closed meshed region; returned value = exact barycentric interpolant; field = gradient of that interpolant
         and material data = those of the block (interior points); exhaustive (previous hit, next element) pairs on small
         meshes with even and odd element counts
"""
import math, os, random, shutil, sys
from fractions import Fraction
sys.path.insert(0, os.path.join(os.path.dirname(os.path.dirname(os.path.abspath(__file__))), "harness", "py"))
from tools import vlib, translate_locate
from tools.vlib import d2tok, tok2d
import femmio, gen, lua_post
from runner import Run

PRE = {"e": "e", "h": "h", "m": "m"}


def orient(ax, ay, bx, by, px, py):
    return (bx - ax) * (py - ay) - (by - ay) * (px - ax)


class ExactMesh:
    def __init__(self, sol):
        self.xy = [(Fraction(n[0]), Fraction(n[1])) for n in sol["nodes"]]
        self.xyf = [(n[0], n[1]) for n in sol["nodes"]]
        self.v = [n[2] for n in sol["nodes"]]
        self.els = [(int(e[0]), int(e[1]), int(e[2])) for e in sol["elements"]]
        self.lbl = [int(e[3]) for e in sol["elements"]]
        # coarse grid for lookups
        xs = [p[0] for p in self.xyf]; ys = [p[1] for p in self.xyf]
        self.x0, self.y0 = min(xs), min(ys)
        self.g = 16
        self.dx = (max(xs) - self.x0) / self.g or 1.0
        self.dy = (max(ys) - self.y0) / self.g or 1.0
        self.grid = {}
        for k, (a, b, c) in enumerate(self.els):
            ex = [self.xyf[i][0] for i in (a, b, c)]; ey = [self.xyf[i][1] for i in (a, b, c)]
            for gx in range(int((min(ex) - self.x0) / self.dx), min(self.g, int((max(ex) - self.x0) / self.dx)) + 1):
                for gy in range(int((min(ey) - self.y0) / self.dy), min(self.g, int((max(ey) - self.y0) / self.dy)) + 1):
                    self.grid.setdefault((gx, gy), []).append(k)

    def containing(self, x, y):
        """all elements whose CLOSED triangle contains the double point (x, y), exactly"""
        px, py = Fraction(x), Fraction(y)
        gx = min(self.g, max(0, int((x - self.x0) / self.dx))); gy = min(self.g, max(0, int((y - self.y0) / self.dy)))
        out = []
        for k in self.grid.get((gx, gy), []):
            a, b, c = self.els[k]
            A, B, C = self.xy[a], self.xy[b], self.xy[c]
            sg = 1 if orient(*A, *B, *C) > 0 else -1
            if sg * orient(*A, *B, px, py) >= 0 and sg * orient(*B, *C, px, py) >= 0 and sg * orient(*C, *A, px, py) >= 0:
                out.append(k)
        return out

    def nearly_inside(self, x, y, tol=1e-11):
        """within tol (relative to the domain size) of some element: used only to excuse a hit on a point that is outside by
        less than the rounding of the side test"""
        L = max(self.dx, self.dy) * self.g
        P = self.xyf
        for k, (a, b, c) in enumerate(self.els):
            sg = 1 if orient(*P[a], *P[b], *P[c]) > 0 else -1
            if all(sg * orient(*P[i], *P[j], x, y) >= -tol * L * math.hypot(P[j][0] - P[i][0], P[j][1] - P[i][1]) for i, j in ((a, b), (b, c), (c, a))):
                return True
        return False

    def naive_side_test(self, k, x, y):
        e = self.els[k]
        P = self.xyf
        for j in range(3):
            kk = (j + 1) % 3
            z = (P[e[kk]][0] - P[e[j]][0]) * (y - P[e[j]][1]) - (P[e[kk]][1] - P[e[j]][1]) * (x - P[e[j]][0])
            if z < 0:
                return False
        return True

    def adversarial_edge_points(self, rng, want, budget=60000):
        em = {}
        for k, e in enumerate(self.els):
            for j in range(3):
                a, b = e[j], e[(j + 1) % 3]
                em.setdefault((min(a, b), max(a, b)), []).append(k)
        shared = [(ab, ks) for ab, ks in em.items() if len(ks) == 2]
        out = []
        if not shared:
            return out
        for _ in range(budget):
            (a, b), ks = shared[rng.randrange(len(shared))]
            t = rng.random()
            x = self.xyf[a][0] + (self.xyf[b][0] - self.xyf[a][0]) * t
            y = self.xyf[a][1] + (self.xyf[b][1] - self.xyf[a][1]) * t
            if not self.naive_side_test(ks[0], x, y) and not self.naive_side_test(ks[1], x, y):
                out.append((x, y))
                if len(out) >= want:
                    break
        return out

    def interp(self, k, x, y):
        a, b, c = self.els[k]
        (x0, y0), (x1, y1), (x2, y2) = self.xy[a], self.xy[b], self.xy[c]
        px, py = Fraction(x), Fraction(y)
        da = (y1 - y2) * (x0 - x2) - (y2 - y0) * (x2 - x1)
        w0 = ((x1 * y2 - x2 * y1) + (y1 - y2) * px + (x2 - x1) * py) / da
        w1 = ((x2 * y0 - x0 * y2) + (y2 - y0) * px + (x0 - x2) * py) / da
        w2 = 1 - w0 - w1
        return float(w0 * Fraction(self.v[a]) + w1 * Fraction(self.v[b]) + w2 * Fraction(self.v[c]))

    def size(self, k):
        a, b, c = self.els[k]
        (x0, y0), (x1, y1), (x2, y2) = self.xyf[a], self.xyf[b], self.xyf[c]
        return math.sqrt(abs((y1 - y2) * (x0 - x2) - (y2 - y0) * (x2 - x1))) or 1e-300

    def gradient(self, k):
        a, b, c = self.els[k]
        (x0, y0), (x1, y1), (x2, y2) = self.xyf[a], self.xyf[b], self.xyf[c]
        da = (y1 - y2) * (x0 - x2) - (y2 - y0) * (x2 - x1)
        gx = (self.v[a] * (y1 - y2) + self.v[b] * (y2 - y0) + self.v[c] * (y0 - y1)) / da
        gy = (self.v[a] * (x2 - x1) + self.v[b] * (x0 - x2) + self.v[c] * (x1 - x0)) / da
        return gx, gy


def main(argv):
    ck = vlib.Check("C12", "proof", argv)
    ck.cov["rule"] = ("per physics (electrostatics, heat, planar magnetics) generated problems solved by the real tools; query sequences "
                      "in random order over element centroids, edge midpoints, vertices, points a hair inside / outside the boundary, "
                      "points in holes and far outside; plus all ordered (previous element, next element) centroid pairs on small "
                      "meshes of even and odd size; a query is non-trivial unless it is far outside")
    ck.assumptions += ["axisymmetric magnetics interpolates quadratically by design and is not part of the linear-interpolant clause",
                       "returned numbers are compared after femmcli's %.16g printing (1e-12 relative)",
                       "a hit on a point that lies outside the mesh by less than 1e-11 of the domain size is at the rounding limit of the side test and is not counted as a phantom"]
    try:
        text = translate_locate.generate(vlib.REPO)
        with vlib.LeanLock():
            vlib.write_if_changed(os.path.join(vlib.LEAN, "XfemmVerif", "Generated", "Locate.lean"), text)
    except translate_locate.TranslateError as e:
        ck.obligation_broken("translator locate: pattern no longer matches the source: %s" % e)
    ck.run_stage_a()
    build = vlib.build_repo("plain")
    mx = vlib.model_exe()
    work = vlib.workdir("C12")
    rng = ck.rng
    stats = dict(queries=0, by_kind={}, categories=dict(centroid=0, edge=0, edge_adversarial=0, near_vertex=0, vertex=0, near_boundary=0, outside=0, pair=0), not_found_expected=0,
                 worst_value_error=0.0, model_compared=0)
    plans = []
    for kind in "ehm":
        plans.append((kind, "small-even")); plans.append((kind, "small-odd")); plans.append((kind, "general"))
    # axisymmetric problems with an external (Kelvin-transformed) region: the material returned at a point of an external block is the
    # block's material divided by |p - (0, Zo)|^2 / (Ro*Ri) (the same warping the solver assembled with, taken at the query point)
    plans.append(("e", "general-ext")); plans.append(("h", "general-ext"))
    plans.append(("m", "general-harmonic"))      # complex potentials: the time-harmonic branch of the magnetics post-processor
    if ck.tier == "thorough":
        plans = plans * 3
    try:
        for t, (kind, shape) in enumerate(plans):
            p = gen.gen_rects(kind, rng, units="centimeters") if shape.startswith("general") else None
            if shape == "general-ext":
                while len(p.labels) < 2:       # a drawing that lies entirely in the external region is not a meaningful problem (see DESIGN.md 0.8)
                    p = gen.gen_rects(kind, rng, units="centimeters")
                p.ptype = "axi"
                W_ = max(n["x"] for n in p.nodes)
                p.ext = (rng.choice([1.5, -0.75, 3.0]), rng.choice([2.0 * W_, 20.0]), rng.choice([W_, 8.0]))
                for lab in p.labels[1:]:
                    if rng.random() < 0.6 or lab is p.labels[-1]:
                        lab["ext"] = 1
                stats["external_region_problems"] = stats.get("external_region_problems", 0) + 1
            if shape == "general-harmonic":
                p.freq = rng.choice([50.0, 400.0])
                for m_ in p.blockprops:
                    m_.pop("LamType", None); m_.pop("LamFill", None); m_.pop("H_c", None)
                    m_["Sigma"] = m_.get("Sigma", rng.choice([0.0, 1.0, 10.0]))
                for lab in p.labels:
                    if lab["circ"] >= 0 and p.circprops[lab["circ"]]["type"] == 0:
                        lab["turns"] = 1
                stats["harmonic_problems"] = stats.get("harmonic_problems", 0) + 1
            if p is None:
                # tiny mesh: one box, coarse
                p = femmio.Problem(kind)
                p.units = "centimeters"
                a, b, c, d = p.add_node(0, 0), p.add_node(3, 0), p.add_node(3, 2), p.add_node(0, 2)
                if kind == "e":
                    p.blockprops = [dict(name="m", ex=2.0, ey=3.0)]
                    p.bdryprops = [dict(name="v0", type=0, Vs=0.0), dict(name="v1", type=0, Vs=7.0)]
                elif kind == "h":
                    p.blockprops = [dict(name="m", Kx=2.0, Ky=3.0)]
                    p.bdryprops = [dict(name="v0", type=0, Tset=300.0), dict(name="v1", type=0, Tset=340.0)]
                else:
                    p.blockprops = [dict(name="m", Mu_x=2.0, Mu_y=3.0, J_re=1.0)]
                    p.bdryprops = [dict(name="v0", type=0), dict(name="v1", type=0, A_0=1e-3)]
                p.add_seg(a, b, bc=0); p.add_seg(b, c); p.add_seg(c, d, bc=1); p.add_seg(d, a)
                p.add_label(1.5, 1.0, 0, meshsize=rng.choice([0.9, 1.3, 0.7]))
                p.regions = [dict(outer=[(0, 0), (3, 0), (3, 2), (0, 2)], inner=[], label=0, role="background")]
            p.smartmesh = 0
            p.precision = 1e-10
            for lab in p.labels:
                if lab["meshsize"] <= 0:
                    lab["meshsize"] = 1.0
            run = Run(build, work, "p%d" % t, p)
            if run.mesh() != 0 or run.solve() != 0:
                ck.violation("tool-failed:" + kind, "mesher/solver failed: " + (run.mesh_out + run.solve_out)[-300:], dict(files=run.files()))
                continue
            sol = femmio.read_solution(run.solution_path(), kind)
            M = ExactMesh(sol)
            Mim = None
            if shape == "general-harmonic":
                import copy as _copy
                Mim = _copy.copy(M)
                Mim.v = [n[3] for n in sol["nodes"]]
            N = len(M.els)
            want_even = shape == "small-even"
            if shape.startswith("small") and (N % 2 == 0) != want_even:
                # nudge the parity by remeshing with another size
                for ms in (0.8, 1.1, 0.6, 1.5, 0.5, 1.0, 0.45):
                    p.labels[0]["meshsize"] = ms
                    run = Run(build, work, "p%d_%s" % (t, str(ms).replace(".", "")), p)
                    if run.mesh() == 0 and run.solve() == 0:
                        sol = femmio.read_solution(run.solution_path(), kind)
                        M = ExactMesh(sol)
                        N = len(M.els)
                        if (N % 2 == 0) == want_even:
                            break
            stats["by_kind"][kind] = stats["by_kind"].get(kind, 0) + 1
            queries = []     # (category, x, y)
            cent = lambda k: tuple(sum(M.xyf[i][d] for i in M.els[k]) / 3 for d in (0, 1))
            if shape.startswith("small") and N <= 80:
                for i in range(N):
                    for j in range(N):
                        queries.append(("pair", *cent(i)))
                        queries.append(("pair", *cent(j)))
            else:
                ks = list(range(N)); rng.shuffle(ks)
                for k in ks[:150]:
                    queries.append(("centroid", *cent(k)))
                for k in ks[:150]:
                    a, b, c = M.els[k]
                    s = rng.randrange(3)
                    i, j = (a, b, c)[s], (a, b, c)[(s + 1) % 3]
                    tt = rng.choice([0.5, 0.25, 0.125])
                    queries.append(("edge", M.xyf[i][0] + (M.xyf[j][0] - M.xyf[i][0]) * tt, M.xyf[i][1] + (M.xyf[j][1] - M.xyf[i][1]) * tt))
                    queries.append(("vertex", *M.xyf[i]))
                # adversarial edge points: those an orientation-by-position (not by node index) side test would reject in BOTH
                # neighbours when evaluated in doubles — exactly the inputs on which an edge-inconsistent test loses points
                for (x, y) in M.adversarial_edge_points(rng, 40 if ck.tier == "quick" else 200):
                    queries.append(("edge_adversarial", x, y))
                # points one to three ulps off a mesh node (bounding-circle filter and side tests at their rounding limit)
                for k in ks[:60]:
                    i = M.els[k][rng.randrange(3)]
                    x, y = M.xyf[i]
                    for _ in range(rng.randint(1, 3)):
                        x = math.nextafter(x, rng.choice([-math.inf, math.inf]))
                    for _ in range(rng.randint(0, 3)):
                        y = math.nextafter(y, rng.choice([-math.inf, math.inf]))
                    queries.append(("near_vertex", x, y))
                xs = [q[0] for q in M.xyf]; ys = [q[1] for q in M.xyf]
                W, H = max(xs), max(ys)
                for _ in range(40):
                    y = rng.uniform(0, H); x = rng.uniform(0, W)
                    e = rng.choice([1e-9, 1e-6, 1e-3])
                    queries += [("near_boundary", e, y), ("near_boundary", W - e, y), ("near_boundary", x, e), ("near_boundary", x, H - e),
                                ("outside", -e, y), ("outside", W + e, y), ("outside", x, -e), ("outside", x, H + e), ("outside", W * 3, H * 3)]
                for r in getattr(p, "regions", []):
                    if r["role"] == "hole":
                        cx = sum(q[0] for q in r["outer"]) / len(r["outer"]); cy = sum(q[1] for q in r["outer"]) / len(r["outer"])
                        queries.append(("outside", cx, cy))
                rng.shuffle(queries)
            # ---- run all queries in one session, in order
            s = lua_post.Session(kind, "p" + femmio.EXT[kind], analyze=False)
            s.raw('%so_smooth("off")' % kind)
            for i, (cat, x, y) in enumerate(queries):
                s.point("q%d" % i, x, y)
            rc, out, raw = s.run(build, run.dir, timeout=1800)
            if rc != 0:
                ck.violation("post-failed:" + kind, "femmcli failed during point queries (rc=%s): %s" % (rc, raw[-400:]), dict(files=run.files()))
                continue
            model_lines, model_expect = [], []
            nviol = 0
            for i, (cat, x, y) in enumerate(queries):
                stats["queries"] += 1
                stats["categories"][cat] += 1
                got = out.get("q%d" % i, [])
                found = bool(got) and got[0] is not None
                inside = M.containing(x, y)
                ck.case((kind, shape, round(x, 9), round(y, 9)), nontrivial=cat != "outside" or abs(x) < 1e3,
                        sample=dict(physics=kind, category=cat, point=(x, y), found=found) if stats["queries"] in (1, 2000, 5000) else None)
                if not inside:
                    stats["not_found_expected"] += 1
                if found and not inside and M.nearly_inside(x, y):
                    stats["rounding_limit_hits"] = stats.get("rounding_limit_hits", 0) + 1
                    continue
                if found != bool(inside):
                    if nviol < 3:
                        nviol += 1
                        ck.violation("located:%s:%s" % (kind, "missed" if inside else "phantom"),
                                     "%s post-processor: point (%.17g, %.17g) [%s, query %d of the sequence] is %s but the query %s"
                                     % (kind, x, y, cat, i, "inside elements %s" % inside[:3] if inside else "outside the mesh",
                                        "found nothing" if inside else "returned a value"),
                                     dict(files=run.files(), point=(x, y), category=cat, sequence_prefix=[(q[1], q[2]) for q in queries[max(0, i - 3):i + 1]],
                                          mesh_elements=N))
                    continue
                if not found:
                    continue
                val = got[0].real if isinstance(got[0], complex) else got[0]
                ex = M.interp(inside[0], x, y)
                vs = max(abs(v) for v in M.v) or 1.0
                err = abs(val - ex) / vs
                if Mim is not None:
                    # the imaginary part is interpolated like the real one
                    vs = max(vs, max(abs(v) for v in Mim.v))
                    vim = got[0].imag if isinstance(got[0], complex) else 0.0
                    err = max(abs(val - ex), abs(vim - Mim.interp(inside[0], x, y))) / vs
                    stats["complex_values_compared"] = stats.get("complex_values_compared", 0) + 1
                stats["worst_value_error"] = max(stats["worst_value_error"], err)
                if not (err <= 1e-12) and nviol < 3:
                    nviol += 1
                    ck.violation("value:%s" % kind, "%s: value at (%.17g, %.17g) is %.17g, the exact interpolant of element %d gives %.17g"
                                 % (kind, x, y, val, inside[0], ex), dict(files=run.files(), point=(x, y), category=cat))
                    continue
                if len(model_lines) < 400 and Mim is None:
                    a, b, c = M.els[inside[0]]
                    model_lines.append("interp " + " ".join(d2tok(v) for v in (*M.xyf[a], *M.xyf[b], *M.xyf[c], M.v[a], M.v[b], M.v[c], x, y)))
                    model_expect.append((val, vs, (x, y)))
                # field and material: interior points only (one containing element)
                if len(inside) == 1 and cat in ("centroid", "pair") and kind == "m":
                    gx, gy = M.gradient(inside[0])
                    u = femmio.UNIT_M[p.units]
                    Bx, By = got[1].real if isinstance(got[1], complex) else got[1], got[2].real if isinstance(got[2], complex) else got[2]
                    gs = max(math.hypot(gx, gy) / u, 1e-300)
                    if math.hypot(Bx - gy / u, By + gx / u) > 1e-9 * gs + 1e-12 * vs / (M.size(inside[0]) * u) and nviol < 3:
                        nviol += 1
                        ck.violation("field:m", "m: flux density at (%.9g, %.9g) is (%.9g, %.9g), the curl of the interpolant is (%.9g, %.9g)"
                                     % (x, y, Bx, By, gy / u, -gx / u), dict(files=run.files(), point=(x, y)))
                if len(inside) == 1 and cat in ("centroid", "pair") and kind == "m" and len(got) >= 11 and not getattr(p, "freq", 0.0):
                    # "scaled by the element's material ... material data returned are those of the block containing the point":
                    # linear, unmagnetised materials without on-edge laminations: mu = fill*mu + (1 - fill), H = B/(mu*mu0), w = B.H/2
                    lab = p.labels[M.lbl[inside[0]]]
                    mat = p.blockprops[lab["block"]]
                    if not mat.get("BH") and not mat.get("H_c") and mat.get("LamType", 0) == 0 and not lab.get("ext") and p.ptype == "planar":
                        t_ = mat.get("LamFill", 1.0)
                        m1 = mat.get("Mu_x", 1.0) * t_ + (1 - t_); m2 = mat.get("Mu_y", 1.0) * t_ + (1 - t_)
                        r_ = lambda z: z.real if isinstance(z, complex) else z
                        Bx, By, W_, Hx, Hy, g1, g2 = r_(got[1]), r_(got[2]), r_(got[4]), r_(got[5]), r_(got[6]), r_(got[9]), r_(got[10])
                        MU0 = 4e-7 * math.pi
                        stats["material_scaled_compared"] = stats.get("material_scaled_compared", 0) + 1
                        bs = max(math.hypot(Bx, By), 1e-300)
                        if (not (abs(g1 - m1) <= 1e-12 * m1) or not (abs(g2 - m2) <= 1e-12 * m2)) and nviol < 3:
                            nviol += 1
                            ck.violation("material:m", "m: permeabilities at (%.9g, %.9g) are (%.12g, %.12g), the block containing the point has (%.12g, %.12g)"
                                         % (x, y, g1, g2, m1, m2), dict(files=run.files(), point=(x, y)))
                        elif (not (math.hypot(Hx - Bx / (m1 * MU0), Hy - By / (m2 * MU0)) <= 1e-9 * bs / (min(m1, m2) * MU0))
                              or not (abs(W_ - 0.5 * (Bx * Hx + By * Hy)) <= 1e-9 * 0.5 * bs * bs / (min(m1, m2) * MU0))) and nviol < 3:
                            nviol += 1
                            ck.violation("scaled-field:m", "m: at (%.9g, %.9g) B = (%.9g, %.9g), H = (%.9g, %.9g), energy density %.9g: not B/(mu*mu0) with mu = (%.6g, %.6g) / not B.H/2"
                                         % (x, y, Bx, By, Hx, Hy, W_, m1, m2), dict(files=run.files(), point=(x, y)))
                if len(inside) == 1 and cat in ("centroid", "pair") and kind in "eh":
                    gx, gy = M.gradient(inside[0])
                    lab = p.labels[M.lbl[inside[0]]]
                    mat = p.blockprops[lab["block"]]
                    u = femmio.UNIT_M[p.units]
                    Ex, Ey = got[3], got[4]
                    gs = max(math.hypot(gx, gy) / u, 1e-300)
                    if math.hypot(Ex + gx / u, Ey + gy / u) > 1e-9 * gs + 1e-12 * vs / (M.size(inside[0]) * u) and nviol < 3:
                        nviol += 1
                        ck.violation("field:%s" % kind, "%s: field at (%.9g, %.9g) is (%.9g, %.9g), minus the gradient of the interpolant is (%.9g, %.9g)"
                                     % (kind, x, y, Ex, Ey, -gx / u, -gy / u), dict(files=run.files(), point=(x, y)))
                    # the flux density is the field scaled by the block's material (constant materials); in an external region the
                    # material is divided by the Kelvin factor, taken at the element centroid for the flux density and at the query
                    # point for the material data returned (the queries of these categories ARE centroids)
                    aecf = 1.0
                    if lab.get("ext") and p.ptype != "planar" and getattr(p, "ext", None):
                        aecf = (x * x + (y - p.ext[0]) ** 2) / (p.ext[1] * p.ext[2])
                        stats["external_points_compared"] = stats.get("external_points_compared", 0) + 1
                    if not mat.get("TK") and len(got) >= 7:
                        sx = mat.get("ex" if kind == "e" else "Kx", 1.0) * (8.85418781762e-12 if kind == "e" else 1.0) / aecf
                        sy = mat.get("ey" if kind == "e" else "Ky", 1.0) * (8.85418781762e-12 if kind == "e" else 1.0) / aecf
                        Dx, Dy = got[1], got[2]
                        stats["material_scaled_compared"] = stats.get("material_scaled_compared", 0) + 1
                        ds_ = max(math.hypot(sx * Ex, sy * Ey), 1e-300)
                        bad = not (math.hypot(Dx - sx * Ex, Dy - sy * Ey) <= 1e-12 * ds_ + 1e-300)
                        if kind == "e" and len(got) >= 8:
                            bad = bad or not (abs(got[7] - 0.5 * (Dx * Ex + Dy * Ey)) <= 1e-12 * 0.5 * ds_ * max(math.hypot(Ex, Ey), 1e-300) + 1e-300)
                        if bad and nviol < 3:
                            nviol += 1
                            ck.violation("scaled-field:%s" % kind, "%s: at (%.9g, %.9g) the flux density is (%.12g, %.12g), the field (%.12g, %.12g) scaled by the block's material gives (%.12g, %.12g)%s"
                                         % (kind, x, y, Dx, Dy, Ex, Ey, sx * Ex, sy * Ey, "" if kind == "h" else "; energy density %.12g vs D.E/2 = %.12g" % (got[7], 0.5 * (Dx * Ex + Dy * Ey))),
                                         dict(files=run.files(), point=(x, y)))
                    kx = mat.get("ex" if kind == "e" else "Kx", 1.0) / aecf; ky = mat.get("ey" if kind == "e" else "Ky", 1.0) / aecf
                    if (abs(got[5] - kx) > 1e-12 * kx or abs(got[6] - ky) > 1e-12 * ky) and nviol < 3:
                        nviol += 1
                        ck.violation("material:%s" % kind, "%s: material data at (%.9g, %.9g) are (%g, %g), the block containing the point has (%g, %g)"
                                     % (kind, x, y, got[5], got[6], kx, ky), dict(files=run.files(), point=(x, y)))
            if model_lines:
                rep, _, _ = vlib.run_lines([mx, "locate"], model_lines)
                for r, (val, vs, pt) in zip(rep, model_expect):
                    stats["model_compared"] += 1
                    # two double evaluations (different operation order) of the interpolant, each within 1e-12 of the exact one on
                    # the meshes generated here (the implementation's own distance to the exact value is checked above)
                    if not r.startswith("x") or abs(tok2d(r) - val) > 2e-12 * vs:
                        ck.obligation_broken("correspondence locate/interp: value returned by the post-processor vs Model/Locate.lean interp",
                                             dict(point=pt, impl=val, model=tok2d(r) if r.startswith("x") else r))
                        break
    finally:
        shutil.rmtree(work, ignore_errors=True)
    ck.notes["input_distribution"] = stats
    return ck.finish()
