"""C19 — nonlinear material curves are consistent and reduce to the linear case.

stage A: Properties/C19.lean over Model/BHCurve.lean: cubic takes table values / slopes at the knots (C1), energy pieces join,
         reported slope = derivative of reported H, energy' = H inside and beyond the table (real analysis), a segment
         that passes the test of GetSlopes carries a non-decreasing H, straight-line tables give exactly the linear material
stage B: the real CMSolverMaterialProp (in-process harness) vs the model at Float: evaluation of H, dH/dB, energy, (v, dv)
         on the implementation's final table (few ulps), the final table itself vs the model's whole GetSlopes loop
         (same number of smoothing passes, slopes to 1e-7), the implementation's slopes in the model's spline equations,
         the model's bad-segment test on the implementation's final table
stage P: exact / cubic-exact oracles on the real code: H' >= 0 on every segment of the final table (exact rational minimum of
         the slope polynomial), continuity at knots from both sides, monotone on a dense grid, slope = Richardson
         difference of H (exact for cubics), energy = Simpson sum of H (exact for cubics), linear tail;
         construction finishes within a time limit; straight-line table == linear material in the real fsolver (potentials,
         energy) and the Newton iteration terminates on saturating tables
"""
import math, os, shutil, subprocess, sys, copy
from fractions import Fraction
sys.path.insert(0, os.path.join(os.path.dirname(os.path.dirname(os.path.abspath(__file__))), "harness", "py"))
from tools import vlib
from tools.vlib import d2tok, tok2d, ulp_diff
import femmio, gen, lua_post
from runner import Run

MUO = 4e-7 * math.pi


def gen_table(rng, t):
    """monotone B-H tables starting at the origin; returns (shape, [(B, H)])"""
    shape = ["frohlich", "knee", "random", "line", "few", "flat-tail", "steep-tail", "uneven", "many"][t % 9]
    n = rng.choice([3, 4, 6, 10, 20])
    if shape == "frohlich":
        bs, a = rng.uniform(1.2, 2.2), rng.uniform(50, 2000)
        hs = sorted({round(10 ** rng.uniform(0.5, 5.5), 3) for _ in range(n)})
        pts = [(MUO * h + bs * h / (h + a), h) for h in hs]
    elif shape == "knee":
        mu1, mu2 = rng.uniform(500, 5000), rng.uniform(1, 20)
        bk = rng.uniform(0.8, 1.8)
        hk = bk / (MUO * mu1)
        pts = [(bk * (i + 1) / n, hk * (i + 1) / n) for i in range(n)]
        pts += [(bk + MUO * mu2 * hk * 10 * (i + 1), hk + hk * 10 * (i + 1)) for i in range(rng.randint(1, 4))]
    elif shape == "random":
        b = h = 0.0
        pts = []
        for _ in range(n):
            b += rng.choice([0.01, 0.1, 0.3, 0.5]) * rng.uniform(0.5, 1.5)
            h += rng.choice([1.0, 10.0, 100.0, 3000.0]) * rng.uniform(0.5, 1.5)
            pts.append((b, h))
    elif shape == "line":
        mu = rng.choice([1.0, 10.0, 1000.0, 2500.0])
        bs = sorted({round(rng.uniform(0.05, 3.0), 3) for _ in range(n)})
        pts = [(b, b / (MUO * mu)) for b in bs]
    elif shape == "few":
        mu = rng.uniform(100, 3000)
        pts = [(1.0, 1.0 / (MUO * mu))]
        if rng.random() < 0.5:
            pts.append((1.0 + rng.uniform(0.2, 1.0), pts[0][1] * rng.uniform(3, 40)))
    elif shape == "flat-tail":
        # the last segment is much flatter (in H over B) than the one before it
        b = h = 0.0
        pts = []
        for i in range(n):
            b += 0.2
            h += 100.0 * (i + 1) ** rng.choice([1, 2])
            pts.append((b, h))
        pts.append((b + rng.uniform(0.5, 2.0), h + rng.uniform(1.0, 30.0)))
    elif shape == "steep-tail":
        b = h = 0.0
        pts = []
        for i in range(n):
            b += 0.25
            h += 50.0 * (i + 1)
            pts.append((b, h))
        for i in range(rng.randint(1, 3)):
            b += 0.01
            h *= rng.uniform(3, 30)
            pts.append((b, h))
    elif shape == "uneven":
        b = h = 0.0
        pts = []
        for i in range(n):
            b += 10 ** rng.uniform(-3, 0)
            h += 10 ** rng.uniform(0, 4)
            pts.append((b, h))
    else:
        hs = [10.0 * 1.25 ** i for i in range(rng.choice([40, 60, 90]))]
        bs_, a = 1.9, 300.0
        pts = [(MUO * h + bs_ * h / (h + a), h) for h in hs]
    return shape, [(0.0, 0.0)] + pts


class Harness:
    def __init__(self, exe):
        self.exe = exe

    def run(self, pts, lam, fill, queries, timeout=20):
        lines = ["tab " + " ".join(d2tok(v) for p in pts for v in p), "lam %d %s" % (lam, d2tok(fill)), "slopes"]
        lines += ["q " + d2tok(b) for b in queries]
        try:
            out, err, rc = vlib.run_lines([self.exe], lines, timeout=timeout)
        except subprocess.TimeoutExpired:
            return None
        if rc != 0 or len(out) < 3:
            return ("crash", rc, err[-400:])
        n = int(out[2].split()[1])
        rows = [tuple(tok2d(x) for x in l.split()[1:4]) for l in out[3:3 + n]]
        qs = [tuple(tok2d(x) for x in l.split()) for l in out[3 + n:]]
        return rows, qs


def slope_min_exact(rows, i):
    """exact minimum over the segment [B_i, B_i+1] of the slope polynomial of the final table; returns (min, argmin local x)"""
    (b0, u0, d0), (b1, u1, d1) = [tuple(Fraction(v) for v in r) for r in (rows[i], rows[i + 1])]
    L = b1 - b0
    c0 = d0
    c1 = -(2 * (2 * d0 * L + d1 * L + 3 * u0 - 3 * u1)) / (L * L)
    c2 = (3 * (d0 * L + d1 * L + 2 * u0 - 2 * u1)) / (L * L * L)
    q = lambda x: c0 + c1 * x + c2 * x * x
    cands = [Fraction(0), L]
    if c2 != 0:
        xv = -c1 / (2 * c2)
        if 0 < xv < L:
            cands.append(xv)
    m = min(cands, key=q)
    return q(m), m


def main(argv):
    ck = vlib.Check("C19", "proof", argv)
    ck.cov["rule"] = ("generated monotone B-H tables of nine shapes (Froehlich, sharp knee, random increments, straight line, 1-2 points, "
                      "flat last segment, steep saturating tail, uneven spacing over 3 decades, 40-90 points) x lamination type x fill "
                      "factor; per table ~12 evaluation points per segment plus knots +-1ulp and the tail; paired linear / straight-line-table "
                      "problems and saturating problems through the real fsolver; a table is non-trivial unless it is a straight line")
    ck.assumptions += ["the first table point is the origin (as FEMM requires)",
                       "magnetostatic case only (omega = 0): the harmonic effective-curve construction is not modelled",
                       "termination of the smoothing loop and of the Newton iteration is observed with a time limit, not proved"]
    ck.run_stage_a()
    build = vlib.build_repo("plain")
    mx = vlib.model_exe()
    rng = ck.rng
    try:
        hx = Harness(vlib.compile_harness("bh_harness", build, ("femm", "luacomplex")))
    except vlib.BuildError as e:
        ck.obligation_broken("correspondence bh_harness<->CMSolverMaterialProp: " + str(e)[:300])
        return ck.finish()
    stats = dict(tables=0, shapes={}, smoothing_passes={}, eval_points=0, worst_eval_ulps=0, worst_slope_reldiff=0.0,
                 worst_spline_residual=0.0, worst_monotone_margin=None, paired_problems=0, nonlinear_problems=0, worst_paired_diff=0.0)
    ntab = 45 if ck.tier == "quick" else 900
    nbad = 0
    for t in range(ntab):
        shape, pts = gen_table(rng, t)
        lam = rng.choice([0, 0, 1, 2])
        fill = rng.choice([1.0, 1.0, 0.98, 0.9, 0.5])
        stats["tables"] += 1
        stats["shapes"][shape] = stats["shapes"].get(shape, 0) + 1
        # ---- evaluation points from the ORIGINAL table; the final knots are only known after the run, so two runs
        r0 = hx.run(pts, lam, fill, [])
        key = (shape, lam, fill, len(pts))
        if r0 is None:
            ck.case(key, nontrivial=True)
            ck.violation("construction-unbounded", "GetSlopes did not finish within 20 s for a monotone %s table of %d points (LamType %d, fill %g)"
                         % (shape, len(pts), lam, fill), dict(table=pts, lam=lam, fill=fill))
            continue
        if r0[0] == "crash":
            ck.case(key, nontrivial=True)
            ck.violation("construction-crash", "CMSolverMaterialProp::GetSlopes crashed (rc=%s) on a monotone %s table" % (r0[1], shape),
                         dict(table=pts, lam=lam, fill=fill, stderr=r0[2]))
            continue
        rows, _ = r0
        n = len(rows)
        qs = []
        for i in range(n - 1):
            b0, b1 = rows[i][0], rows[i + 1][0]
            for f in (0.03, 0.25, 0.5, 0.75, 0.97):
                qs.append(b0 + (b1 - b0) * f)
            # Richardson / Simpson stencils around the middle
            d = (b1 - b0) / 8
            mid = b0 + (b1 - b0) * 0.5
            qs += [mid - 2 * d, mid - d, mid + d, mid + 2 * d]
            qs += [math.nextafter(b1, -math.inf), b1, math.nextafter(b1, math.inf)]
        bn = rows[-1][0]
        qs += [bn * 1.0000001, bn * 1.5, bn * 2.0, bn * 4.0]
        qs = sorted(set(q for q in qs if q > 0))
        r1 = hx.run(pts, lam, fill, qs)
        if r1 is None or r1[0] == "crash":
            ck.violation("evaluation-crash", "evaluation of the material model crashed or hung", dict(table=pts, lam=lam, fill=fill))
            continue
        rows, vals = r1
        Hs = {q: v[0] for q, v in zip(qs, vals)}
        dHs = {q: v[1] for q, v in zip(qs, vals)}
        Es = {q: v[2] for q, v in zip(qs, vals)}
        stats["eval_points"] += len(qs)
        ck.case(key + (round(pts[1][1], 6),), nontrivial=shape != "line",
                sample=dict(shape=shape, points=len(pts), lam=lam, fill=fill, final_rows=rows[:3]) if t < 2 else None)
        hscale = max(abs(r[1]) for r in rows) or 1.0
        sscale = max(abs(r[2]) for r in rows) or 1.0
        # ================= stage B: model vs implementation
        mlines = ["rows " + " ".join(d2tok(v) for r in rows for v in r)] + ["q " + d2tok(q) for q in qs] + ["res", "ok"]
        mlines += ["tab " + " ".join(d2tok(v) for p in pts for v in p), "lam %d %s" % (lam, d2tok(fill)), "slopes"]
        rep, _, _ = vlib.run_lines([mx, "bh"], mlines)
        broke = False
        for q, v, l in zip(qs, vals, rep[1:1 + len(qs)]):
            mv = [tok2d(x) for x in l.split()]
            for name, a, b_, sc in (("H", v[0], mv[0], hscale), ("dHdB", v[1], mv[1], sscale), ("energy", v[2], mv[2], hscale * bn),
                                    ("v", v[3], mv[3], 0), ("dv", v[4], mv[4], 0)):
                u = ulp_diff(a, b_)
                if u > stats["worst_eval_ulps"] and abs(a - b_) > 1e-13 * sc:
                    stats["worst_eval_ulps"] = u
                if u > 64 and abs(a - b_) > 1e-12 * max(sc, abs(a)) and not broke:
                    broke = True
                    ck.obligation_broken("correspondence CMSolverMaterialProp<->Model/BHCurve.lean: %s(%.17g) differs" % (name, q),
                                         dict(table=pts, lam=lam, fill=fill, b=q, impl=a, model=b_, final_rows=rows))
        res = [tok2d(x) for x in rep[1 + len(qs)].split()]
        # scale of a spline row ~ slope / segment length
        rs = max(abs(r[2]) for r in rows) / min(rows[i + 1][0] - rows[i][0] for i in range(n - 1))
        worst = max(abs(x) for x in res) / rs if res else 0.0
        stats["worst_spline_residual"] = max(stats["worst_spline_residual"], worst)
        if worst > 1e-8:
            ck.obligation_broken("correspondence GetSlopes<->spline equations of Model/BHCurve.lean: the implementation's slopes leave a residual %.3g" % worst,
                                 dict(table=pts, lam=lam, fill=fill, final_rows=rows))
        model_ok = rep[2 + len(qs)].strip()
        mrows = []
        hdr = rep[5 + len(qs)].split() if len(rep) > 5 + len(qs) else ["no-fuel"]
        if hdr[0] == "rows":
            mrows = [tuple(tok2d(x) for x in l.split()[1:4]) for l in rep[6 + len(qs):6 + len(qs) + int(hdr[1])]]
            stats["smoothing_passes"][hdr[2]] = stats["smoothing_passes"].get(hdr[2], 0) + 1
        # near-tangent decisions may legitimately differ between the dense solve and the Thomas solve: compare tables loosely and
        # treat a different pass count as broken correspondence only when the oracle below also objects
        same_tab = len(mrows) == n and all(abs(a[0] - b_[0]) <= 1e-9 * bn and abs(a[1] - b_[1]) <= 1e-9 * hscale for a, b_ in zip(rows, mrows))
        stats["loop_agrees"] = stats.get("loop_agrees", 0) + (1 if same_tab else 0)
        if not same_tab:
            ck.obligation_broken("correspondence GetSlopes<->Model getSlopes: the whole construction loop (solve, test, smooth, fill-factor transform) ends on a different table",
                                 dict(table=pts, lam=lam, fill=fill, impl_rows=rows, model_rows=mrows, model_header=hdr))
        if same_tab:
            d = max(abs(a[2] - b_[2]) for a, b_ in zip(rows, mrows)) / sscale
            stats["worst_slope_reldiff"] = max(stats["worst_slope_reldiff"], d)
            if d > 1e-7:
                ck.obligation_broken("correspondence GetSlopes<->Model getSlopes: slopes differ by %.3g (relative)" % d,
                                     dict(table=pts, lam=lam, fill=fill, impl_rows=rows, model_rows=mrows))
        # ================= stage P: oracles on the real code
        bad = []
        # (1) exact monotonicity of the final table
        margin = None
        for i in range(n - 1):
            m, xm = slope_min_exact(rows, i)
            rel = float(m) / sscale
            margin = rel if margin is None else min(margin, rel)
            if rel < -1e-9:
                bq = rows[i][0] + float(xm)
                bad.append(("monotone", "H(|B|) decreases on segment %d of the final table: dH/dB = %.6g at B = %.17g (table slopes up to %.3g)"
                            % (i, float(m), bq, sscale), dict(segment=i, B=bq)))
                break
        if margin is not None:
            stats["worst_monotone_margin"] = margin if stats["worst_monotone_margin"] is None else min(stats["worst_monotone_margin"], margin)
        # the exact oracle and the model's replay of the test must agree with the implementation's exit decision
        if model_ok != "true" and not bad:
            # the model's test (Thomas slopes are not involved here: it runs on the implementation's rows) rejects a table the code accepted
            ck.obligation_broken("correspondence GetSlopes exit test<->Model curveOK: the model finds a bad segment in the table the implementation accepted",
                                 dict(table=pts, lam=lam, fill=fill, final_rows=rows))
        # (2) dense grid: non-decreasing, continuous at knots
        prev = None
        for q in qs:
            if prev is not None and Hs[q] < Hs[prev] - 1e-9 * hscale and not bad:
                bad.append(("monotone", "H decreases: H(%.17g) = %.17g > H(%.17g) = %.17g" % (prev, Hs[prev], q, Hs[q]), dict(B=(prev, q))))
            prev = q
        for i in range(1, n):
            bk = rows[i][0]
            lo, hi = math.nextafter(bk, -math.inf), math.nextafter(bk, math.inf)
            for a in (lo, hi):
                if a in Hs and abs(Hs[a] - Hs[bk]) > 1e-9 * hscale:
                    bad.append(("continuity", "H jumps at the knot B = %.17g: H = %.17g there, %.17g one ulp away" % (bk, Hs[bk], Hs[a]), dict(B=bk)))
                if a in dHs and abs(dHs[a] - dHs[bk]) > 1e-7 * sscale:
                    bad.append(("slope-continuity", "dH/dB jumps at the knot B = %.17g: %.17g vs %.17g" % (bk, dHs[bk], dHs[a]), dict(B=bk)))
                if a in Es and abs(Es[a] - Es[bk]) > 1e-9 * hscale * bn:
                    bad.append(("energy-continuity", "energy jumps at the knot B = %.17g: %.17g vs %.17g" % (bk, Es[bk], Es[a]), dict(B=bk)))
        # (3) slope = derivative (Richardson difference, exact for cubics), (4) energy = integral (Simpson, exact for cubics)
        acc = 0.0
        for i in range(n - 1):
            b0, b1 = rows[i][0], rows[i + 1][0]
            d = (b1 - b0) / 8
            mid = b0 + (b1 - b0) * 0.5
            try:
                D1 = (Hs[mid + d] - Hs[mid - d]) / (2 * d)
                D2 = (Hs[mid + 2 * d] - Hs[mid - 2 * d]) / (4 * d)
            except KeyError:
                continue
            der = (4 * D1 - D2) / 3
            if abs(der - dHs[mid]) > 1e-7 * sscale + 1e-9 * hscale / d:
                bad.append(("slope", "reported slope at B = %.17g is %.10g, the derivative of the reported H is %.10g" % (mid, dHs[mid], der), dict(B=mid)))
            h0 = Hs[b0] if b0 in Hs else rows[i][1]
            simpson = (b1 - b0) / 6 * (h0 + 4 * Hs[mid] + Hs[b1])
            acc += simpson
            if abs(Es[b1] - acc) > 1e-9 * hscale * bn:
                bad.append(("energy", "stored energy at B = %.17g is %.12g, the integral of the reported H up to there is %.12g" % (b1, Es[b1], acc), dict(B=b1)))
                break
        # (5) beyond the table: linear continuation, energy
        t1, t2, t3 = bn * 1.5, bn * 2.0, bn * 4.0
        if all(x in Hs for x in (t1, t2, t3)):
            sl = (Hs[t2] - Hs[t1]) / (t2 - t1)
            if abs(sl - dHs[t2]) > 1e-7 * sscale or abs(dHs[t3] - dHs[t1]) > 1e-12 * sscale:
                bad.append(("tail-slope", "beyond the table the reported slope %.10g is not the slope %.10g of the reported H" % (dHs[t2], sl), dict(B=t2)))
            e_exp = Es[bn] + (t2 - bn) * (Hs[bn] + Hs[t2]) / 2
            if abs(Es[t2] - e_exp) > 1e-9 * hscale * t2:
                bad.append(("tail-energy", "beyond the table the energy %.12g is not the integral %.12g of the reported H" % (Es[t2], e_exp), dict(B=t2)))
            if Hs[math.nextafter(bn, math.inf)] < Hs[bn] - 1e-9 * hscale if math.nextafter(bn, math.inf) in Hs else False:
                bad.append(("tail-continuity", "H drops just beyond the last table point", dict(B=bn)))
        # (6) straight line == linear material
        if shape == "line" and (lam != 0 or fill == 1.0):
            mu = pts[1][0] / pts[1][1]
            for q, v in zip(qs, vals):
                if abs(v[0] - q / mu) > 1e-9 * hscale or abs(v[3] * mu - 1) > 1e-9 or abs(v[4]) * q * q * mu > 1e-7:
                    bad.append(("linear-reduction", "straight-line table of permeability %.6g: at B = %.6g H = %.12g (linear: %.12g), v*mu = %.12g, dv = %.3g"
                                % (mu / MUO, q, v[0], q / mu, v[3] * mu, v[4]), dict(B=q)))
                    break
        if bad and nbad < 4:
            nbad += 1
            k0, what, extra = bad[0]
            extra.update(table=pts, lam=lam, fill=fill, final_rows=rows, how="bh_harness: tab / lam / slopes / q")
            ck.violation("bh:" + k0, "%s table, LamType %d, fill %g: %s" % (shape, lam, fill, what), extra)
    # ================= paired problems through the real solver
    work = vlib.workdir("C19")
    try:
        npair = 5 if ck.tier == "quick" else 27
        for t in range(npair):
            p = gen.gen_rects("m", rng, units=rng.choice(["centimeters", "millimeters", "inches"]))
            p.smartmesh = 0
            p.precision = 1e-10
            for lab in p.labels:
                if lab["meshsize"] <= 0:
                    lab["meshsize"] = rng.choice([1.0, 1.5])
            for m in p.blockprops:        # plain linear isotropic materials, some current
                for kk in ("H_c", "LamType", "LamFill", "Sigma"):
                    m.pop(kk, None)
                m["Mu_y"] = m["Mu_x"]
            if not any(m["J_re"] for m in p.blockprops):
                p.blockprops[0]["J_re"] = 1.5
            # lamination type and fill factor are part of the reduction: a laminated straight-line table has to give what the
            # laminated linear material gives (the table is rescaled to the iron / air mixture in GetSlopes for in-plane
            # laminations, the on-edge types are combined by the solver)
            # (every run has in-plane laminated pairs: pair 0, 2, 4, ... ; on-edge ones: 1, 5, ... ; unlaminated: 3, 7, ...)
            # (in-plane laminated: pairs 0, 2, 5; laminated on edge in either direction: 1, 4, 6, 8; unlaminated: 3, 7; of every nine
            #  pairs three are axisymmetric: the axisymmetric solver has its own copy of the nonlinear lamination formulas)
            lt = [0, 2, 0, None, 1, 0, 1, None, 2][t % 9]
            rng.choice([1, 2])          # (keeps the random stream of the earlier schedule)
            if t % 9 in (1, 5, 6):
                p.ptype = "axi"
                stats["paired_axisymmetric"] = stats.get("paired_axisymmetric", 0) + 1
            for m in p.blockprops:
                if m["Mu_x"] > 1.0 and lt is not None:
                    m["LamType"] = lt
                    m["LamFill"] = rng.choice([0.5, 0.9, 0.97])
                    stats["paired_laminated"] = stats.get("paired_laminated", {})
                    stats["paired_laminated"][str(lt)] = stats["paired_laminated"].get(str(lt), 0) + 1
            plin = p
            pnl = copy.deepcopy(p)
            ntab = rng.choice([2, 3, 6])
            for m in pnl.blockprops:
                if m["Mu_x"] > 1.0:
                    bs = sorted({round(rng.uniform(0.1, 3.0), 3) for _ in range(ntab)})
                    m["BH"] = [(0.0, 0.0)] + [(b, b / (MUO * m["Mu_x"])) for b in bs]
            if not any("BH" in m for m in pnl.blockprops):
                m = pnl.blockprops[0]
                m["Mu_x"] = m["Mu_y"] = 50.0
                plin.blockprops[0]["Mu_x"] = plin.blockprops[0]["Mu_y"] = 50.0
                m["BH"] = [(0.0, 0.0), (0.7, 0.7 / (MUO * 50.0)), (2.0, 2.0 / (MUO * 50.0))]
                m["LamType"] = plin.blockprops[0]["LamType"] = lt if lt is not None else 0
                m["LamFill"] = plin.blockprops[0]["LamFill"] = 0.5 if lt is not None else 1.0
            sols, energies = [], []
            failed = False
            for nm, pp in (("lin", plin), ("tab", pnl)):
                run = Run(build, work, "pair%d_%s" % (t, nm), pp)
                if run.mesh() != 0 or run.solve(timeout=300) != 0:
                    failed = True
                    if run.solve_rc == -999:
                        ck.violation("newton-nontermination:line", "fsolver did not terminate within 300 s on a problem whose B-H tables are straight lines",
                                     dict(files=run.files()))
                    else:
                        ck.violation("tool-failed", "mesher/solver failed on %s: %s" % (nm, (run.mesh_out + run.solve_out)[-300:]), dict(files=run.files()))
                    break
                sols.append(femmio.read_solution(run.solution_path(), "m"))
                s = lua_post.Session("m", "p.fem", analyze=False)
                s.group_select()
                s.block_integral("W", 2)
                rc, out, raw = s.run(build, run.dir)
                energies.append(out.get("W", [None])[0])
            if failed:
                continue
            stats["paired_problems"] += 1
            A1 = [nd[2] for nd in sols[0]["nodes"]]
            A2 = [nd[2] for nd in sols[1]["nodes"]]
            ck.case(("pair", t, len(A1)), nontrivial=True)
            sc = max(abs(a) for a in A1) or 1.0
            d = max(abs(a - b_) for a, b_ in zip(A1, A2)) / sc if len(A1) == len(A2) else float("inf")
            stats["worst_paired_diff"] = max(stats["worst_paired_diff"], d)
            # on-edge laminations (types 1 / 2): the nonlinear branch of the solvers takes mu*fill along the sheets where the linear
            # branch takes mu*fill + (1 - fill) (known finding); the potentials then differ by a fraction of (1 - fill) / (mu fill)
            onedge = [(1.0 - m["LamFill"]) / (m["Mu_x"] * m["LamFill"]) for m in pnl.blockprops if "BH" in m and m.get("LamType", 0) in (1, 2)]
            if d > 1e-6 and onedge and d <= 3.0 * max(onedge):
                ck.violation("linear-reduction:on-edge-lamination", "straight-line B-H tables vs the linear material, laminations on edge: potentials differ by %.3g "
                             "(relative), (1 - fill) / (mu fill) = %.3g" % (d, max(onedge)),
                             dict(linear=Run(build, work, "pair%d_lin" % t, plin).files(), table=Run(build, work, "pair%d_tab" % t, pnl).files()))
            elif d > 1e-6:
                ck.violation("linear-reduction:solution", "straight-line B-H tables vs the linear material of the same permeability: potentials differ by %.3g (relative)" % d,
                             dict(linear=Run(build, work, "pair%d_lin" % t, plin).files(), table=Run(build, work, "pair%d_tab" % t, pnl).files()))
            elif not onedge and energies[0] is not None and energies[1] is not None and abs(energies[0] - energies[1]) > 1e-6 * abs(energies[0]):
                ck.violation("linear-reduction:energy", "straight-line B-H tables vs linear material: stored energy %.12g vs %.12g" % (energies[1], energies[0]),
                             dict(linear=Run(build, work, "pair%d_lin" % t, plin).files(), table=Run(build, work, "pair%d_tab" % t, pnl).files()))
        # saturating tables: the Newton iteration terminates
        nnl = 3 if ck.tier == "quick" else 24
        for t in range(nnl):
            p = gen.gen_rects("m", rng, units="centimeters")
            p.smartmesh = 0
            p.precision = 1e-8
            for lab in p.labels:
                if lab["meshsize"] <= 0:
                    lab["meshsize"] = 1.5
            for m in p.blockprops:
                for kk in ("H_c", "Sigma"):
                    m.pop(kk, None)
                m["J_re"] = m.get("J_re", 0.0) * rng.choice([1.0, 5.0, 20.0])
            shape, pts = gen_table(rng, rng.choice([0, 1, 6, 8]))
            p.blockprops[-1]["BH"] = pts
            p.blockprops[-1]["Mu_x"] = p.blockprops[-1]["Mu_y"] = 1000.0
            if not any(m["J_re"] for m in p.blockprops):
                p.blockprops[0]["J_re"] = 5.0
            run = Run(build, work, "nl%d" % t, p)
            if run.mesh() != 0:
                continue
            rc = run.solve(timeout=300)
            stats["nonlinear_problems"] += 1
            ck.case(("nl", t, shape), nontrivial=True)
            if rc == -999:
                ck.violation("newton-nontermination", "fsolver did not terminate within 300 s on a magnetostatic problem with a monotone %s B-H table" % shape,
                             dict(files=run.files()))
            elif rc != 0:
                ck.violation("tool-failed:nl", "fsolver failed (rc=%s) on a nonlinear problem: %s" % (rc, run.solve_out[-300:]), dict(files=run.files()))
            else:
                sol = femmio.read_solution(run.solution_path(), "m")
                if any(not math.isfinite(nd[2]) for nd in sol["nodes"]):
                    ck.violation("nonlinear-nan", "fsolver wrote a non-finite potential for a monotone %s B-H table" % shape, dict(files=run.files()))
    finally:
        shutil.rmtree(work, ignore_errors=True)
    ck.notes["input_distribution"] = stats
    return ck.finish()
