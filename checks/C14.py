"""C14 — problem files survive load and save unchanged in meaning.

stage A: translator tools/translate_filekeys.py regenerates Generated/FileKeys.lean (key<->member maps of every fromStream /
         toStream, copy-constructor chains, problem-level keys per file type, stream precision); Properties/C14.lean:
         general load-after-save and idempotence theorems over Model/FileCodec.lean whose hypotheses are discharged on the
         generated tables by kernel evaluation; string literals; mesh-size conversion
stage B: the real parseString (in-process harness) vs Model/FileCodec.lean parseStr on generated lines (quotes, blanks, CR)
stage P: independent reader (harness/py/femmio.read_problem): generated problems with every field set, names with spaces and
         quotes, 0..many properties, B-H / T-k tables, time step, previous solution, FEMM-4.2 style files (CRLF, extra
         spacing) -> open + saveas through the real femmcli -> same meaning; saveas again -> byte-identical; the saved file
         meshed and solved by the real tools gives the same solution as the original; fmesher on a periodic problem
         (which saves the document over its input) leaves the meaning of the input unchanged
"""
import copy, math, os, shutil, subprocess, sys
sys.path.insert(0, os.path.join(os.path.dirname(os.path.dirname(os.path.abspath(__file__))), "harness", "py"))
from tools import vlib, translate_filekeys
import femmio, gen
from runner import Run

NAMES = ["plain", "with space", 'a "quoted" name', "trailing ", " leading", "x=y", "<tag>", "[sect]", "semi;colon", "tab\tinside", "a,b", "'single'"]
DEFAULT_TOP = {"[frequency]": ("n", 0.0), "[dosmartmesh]": ("n", 1.0), "[forcemaxmesh]": ("n", 0.0), "[dt]": ("n", 0.0), "[prevtype]": ("n", 0.0),
               "[prevsoln]": ("s", ""), "[acsolver]": ("n", 0.0), "[extzo]": ("n", 0.0), "[extro]": ("n", 0.0), "[extri]": ("n", 0.0),
               "[comment]": ("s", ""), "[depth]": ("n", 1.0)}
IRRELEVANT = {"m": {"[format]"}, "h": {"[format]", "[frequency]", "[acsolver]"}, "e": {"[format]", "[frequency]", "[acsolver]", "[prevsoln]", "[prevtype]"}}
DEFAULT_PROP = {"<lamfill>": 1.0, "<mu_x>": 1.0, "<mu_y>": 1.0, "<kx>": 1.0, "<ky>": 1.0, "<ex>": 1.0, "<ey>": 1.0, "<circuittype>": 0.0, "<conductortype>": 0.0}


def decorate(p, rng, runnable):
    """set every field the format has; extra (unreferenced) properties carry the extreme values"""
    k = p.kind
    r = lambda: rng.choice([0.0, 1.0, -2.5, 1e-9, 3.0000000000000004, 12345.678901234567, 1e300, 2.2250738585072014e-308, 0.1])
    p.precision = rng.choice([1e-8, 1e-10, 1.0000000000000002e-9])
    p.minangle = rng.choice([30.0, 25.5, 1.0, 33.8]) if not runnable else rng.choice([30.0, 25.5, 20.0])
    p.depth = rng.choice([1.0, 2.5, 0.001, 100.0])
    # (FEMM 4.2 writes a problem note of several lines on ONE line, each line break as the two characters backslash-n)
    p.comment = rng.choice(["generated", 'say "hello" twice', "", "trailing blank ", "a = b [c] <d>",
                            "Coil study, rev C\\nair gap 0.5 mm\\nsee report 12/2016", "two lines\\nsecond line",
                            "Coil study, rev C\\nair gap 0.5 mm\\nsee report 12/2016"])
    p.smartmesh = rng.choice([None, 0, 1])
    p.forcemaxmesh = rng.choice([None, 0, 1])
    if k == "m":
        p.freq = rng.choice([0.0, 0.0, 50.0, 1e3])
        p.acsolver = rng.choice([0, 1])
        if not runnable:
            p.prevtype = rng.choice([0, 1, 2])
    if k == "h":
        p.dt = rng.choice([0.0, 0.5, 10.0, 1e-3]) if not runnable else 0.0
    if k in "mh" and not runnable:
        p.prevsoln = rng.choice(["", "previous run.an" + ("s" if k == "m" else "h"), 'odd "name".ans'])
    # rename existing properties (references are by index)
    for lst in (p.pointprops, p.bdryprops, p.blockprops, p.circprops):
        used = set()
        for i, d in enumerate(lst):
            if rng.random() < 0.5:
                nm = rng.choice(NAMES)
                if nm not in used:
                    d["name"] = nm
            used.add(d["name"])
    # extra properties with every field set
    for _ in range(rng.randint(0, 3)):
        nm = rng.choice(NAMES)
        if k == "m":
            p.pointprops.append(dict(name=nm, A_re=r(), A_im=r(), I_re=r(), I_im=r()))
        else:
            p.pointprops.append(dict(name=nm, V=r(), q=r()))
    for _ in range(rng.randint(0, 3)):
        nm = rng.choice(NAMES)
        if k == "m":
            d = dict(name=nm, type=rng.choice([0, 1, 2, 3]))
            for key in ("A_0", "A_1", "A_2", "Phi", "c0", "c0i", "c1", "c1i", "Mu_ssd", "Sigma_ssd"):
                d[key] = r()
            if rng.random() < 0.5:
                d["innerangle"], d["outerangle"] = r(), r()
            p.bdryprops.append(d)
        elif k == "e":
            p.bdryprops.append(dict(name=nm, type=rng.choice([0, 1, 2]), Vs=r(), qs=r(), c0=r(), c1=r()))
        else:
            p.bdryprops.append(dict(name=nm, type=rng.choice([0, 1, 2, 3]), Tset=r(), qs=r(), beta=r(), h=r(), Tinf=r()))
    for _ in range(rng.randint(0, 3)):
        nm = rng.choice(NAMES)
        if k == "m":
            d = dict(name=nm, LamType=rng.choice([0, 1, 2, 3, 4, 5]), LamFill=rng.choice([1.0, 0.5, 0.98]), NStrands=rng.choice([0, 1, 100]), WireD=r())
            for key in ("Mu_x", "Mu_y", "H_c", "H_cAngle", "J_re", "J_im", "Sigma", "d_lam", "Phi_h", "Phi_hx", "Phi_hy"):
                d[key] = r()
            if rng.random() < 0.6:
                n = rng.choice([2, 3, 10, 40])
                d["BH"] = [(0.0, 0.0)] + [(0.1 * (i + 1) + rng.random() * 0.05, 100.0 * (i + 1) ** 2 + rng.random()) for i in range(n)]
            p.blockprops.append(d)
        elif k == "e":
            p.blockprops.append(dict(name=nm, ex=r(), ey=r(), qv=r()))
        else:
            d = dict(name=nm, Kx=r(), Ky=r(), Kt=r(), qv=r())
            if rng.random() < 0.6:
                n = rng.choice([1, 2, 5, 20])
                d["TK"] = [(200.0 + 50 * i + rng.random(), 1.0 + i * 0.5 + rng.random()) for i in range(n)]
            p.blockprops.append(d)
    for _ in range(rng.randint(0, 2)):
        nm = rng.choice(NAMES)
        if k == "m":
            p.circprops.append(dict(name=nm, I_re=r(), I_im=r(), type=rng.choice([0, 1])))
        else:
            p.circprops.append(dict(name=nm, V=r(), q=r(), type=rng.choice([0, 1])))
    # harmless geometry attributes
    for n in p.nodes:
        if rng.random() < 0.3:
            n["group"] = rng.randint(0, 9)
    for s in p.segs:
        if rng.random() < 0.2:
            s["group"] = rng.randint(0, 9)
        if not runnable and rng.random() < 0.2:
            s["hidden"] = 1
    for l in p.labels:
        if rng.random() < 0.3:
            l["group"] = rng.randint(0, 9)
        if k == "m" and rng.random() < 0.3:
            l["magdir"] = rng.choice([0.0, 45.0, -90.5])
        if k == "m" and not runnable and rng.random() < 0.2:
            l["magdirfctn"] = rng.choice(["theta", "x+y", "R*2"])
        # the two flags share one packed column of the label record (1 = external, 2 = default, 3 = both): every combination, per kind
        if not runnable:
            r = rng.random()
            l["ext"], l["default"] = (1, 0) if r < 0.15 else (0, 1) if r < 0.3 else (1, 1) if r < 0.5 else (l.get("ext", 0), l.get("default", 0))
    if rng.random() < 0.3:
        p.add_hole(0.5, 0.5, group=rng.randint(0, 3)) if not runnable else None
    return p


def restyle(text, rng):
    """FEMM 4.2 flavour: CRLF, odd spacing around '=', tabs, trailing blanks, blank lines"""
    out = []
    for l in text.split("\n"):
        l = l.rstrip("\r")
        if "=" in l and (l.lstrip().startswith("[") or l.lstrip().startswith("<")):
            a, _, b = l.partition("=")
            l = a.rstrip() + rng.choice([" = ", "  =  ", "\t=\t", "   = ", " ="]) + b.lstrip()
            if rng.random() < 0.3:
                l = rng.choice(["\t", "      "]) + l.lstrip()
        if rng.random() < 0.2:
            l += rng.choice([" ", "  ", "\t"])
        # blank lines only where FEMM's own files could have them: in front of a key line, never inside a counted list of rows
        if rng.random() < 0.05 and l.lstrip().startswith(("[", "<")):
            out.append("")
        out.append(l)
    return "\r\n".join(out)


def val_eq(a, b, rel=0.0):
    if a[0] != b[0]:
        return False
    if a[0] == "n":
        x, y = a[1], b[1]
        return x == y or (x != x and y != y) or abs(x - y) <= rel * max(abs(x), abs(y))
    return a[1] == b[1]


def diff_problems(A, B, kind):
    """list of (where, original, saved)"""
    out = []
    for key in sorted(set(A["top"]) | set(B["top"])):
        if key in IRRELEVANT[kind]:
            continue
        dflt = DEFAULT_TOP.get(key)
        a, b = A["top"].get(key, dflt), B["top"].get(key, dflt)
        if a is None or b is None or not val_eq(a, b):
            out.append((key, a, b))
    for sec in ("point", "bdry", "block", "circ"):
        la, lb = A["props"].get(sec, []), B["props"].get(sec, [])
        if len(la) != len(lb):
            out.append((sec + " count", len(la), len(lb)))
            continue
        for i, (pa, pb) in enumerate(zip(la, lb)):
            for key in sorted((set(pa) | set(pb)) - {"_table"}):
                dv = ("n", DEFAULT_PROP.get(key, 0.0))
                a, b = pa.get(key, dv), pb.get(key, dv)
                if not val_eq(a, b):
                    out.append(("%s property %d %s" % (sec, i, key), a, b))
            if pa["_table"] != pb["_table"]:
                out.append(("%s property %d table" % (sec, i), pa["_table"][:3], pb["_table"][:3]))
    for sec in ("nodes", "segs", "arcs", "holes", "labels"):
        ra, rb = A["geom"].get(sec, []), B["geom"].get(sec, [])
        if len(ra) != len(rb):
            out.append((sec + " count", len(ra), len(rb)))
            continue
        for i, (x, y) in enumerate(zip(ra, rb)):
            n = max(len(x), len(y))
            for j in range(n):
                a = x[j] if j < len(x) else None
                b = y[j] if j < len(y) else None
                if isinstance(a, tuple) or isinstance(b, tuple):
                    if (a or ("s", "")) != (b or ("s", "")):
                        out.append(("%s row %d string" % (sec, i), a, b))
                    continue
                fa = float(a) if a is not None else 0.0
                fb = float(b) if b is not None else 0.0
                # mesh size of a label passes through an area (sqrt): one rounding; non-positive sizes mean "automatic"
                if sec == "labels" and j == 3:
                    if (fa <= 0 and fb <= 0) or abs(fa - fb) <= 4e-16 * abs(fa):
                        continue
                if sec == "segs" and j == 2 and fa < 0 and fb < 0:
                    continue
                if fa != fb:
                    out.append(("%s row %d column %d" % (sec, i, j), a, b))
    return out


def femmcli(build, cwd, lines, timeout=120):
    open(os.path.join(cwd, "s.lua"), "w").write("\n".join(lines) + "\n")
    try:
        r = subprocess.run([os.path.join(build, "cfemm", "bin", "femmcli"), "--lua-script=s.lua"], cwd=cwd, stdout=subprocess.PIPE,
                           stderr=subprocess.STDOUT, text=True, timeout=timeout, errors="replace")
        return r.returncode, r.stdout
    except subprocess.TimeoutExpired:
        return -999, "timeout"


def files_of(d):
    out = {}
    for f in sorted(os.listdir(d)):
        pth = os.path.join(d, f)
        if os.path.isfile(pth) and os.path.getsize(pth) < 300000 and f.endswith((".fem", ".fee", ".feh", ".lua")):
            out[f] = open(pth, errors="replace", newline="").read()
    return out


def main(argv):
    ck = vlib.Check("C14", "proof", argv)
    ck.cov["rule"] = ("generated problems of the three file types (rectangle and disc families, planar and axisymmetric) decorated with every "
                      "field of the format, 0-3 extra properties per kind carrying extreme doubles, names with blanks / quotes / '=' / brackets, "
                      "tables of 1-40 points, written LF and FEMM-4.2 style (CRLF, odd spacing); each loaded and saved twice by the real femmcli; "
                      "a case is non-trivial unless it has no property at all")
    ck.assumptions += ["names are non-empty and do not contain line breaks (the format is line oriented; an empty conductor / material name is not written and reads back as the default name)",
                       "numeric literals are zero or normal doubles (std::stod rejects subnormal literals with a message and keeps the default)",
                       "17 significant digits round-trip a double (IEEE 754 / the C library)",
                       "the mesh size of a block label is compared to 2 ulp (it is stored as an area)"]
    try:
        text = translate_filekeys.generate(vlib.REPO)
        with vlib.LeanLock():
            vlib.write_if_changed(os.path.join(vlib.LEAN, "XfemmVerif", "Generated", "FileKeys.lean"), text)
    except translate_filekeys.TranslateError as e:
        ck.obligation_broken("translator filekeys: pattern no longer matches the source: %s" % e)
    ck.run_stage_a()
    build = vlib.build_repo("plain")
    mx = vlib.model_exe()
    rng = ck.rng
    stats = dict(problems=0, by_kind={}, styles={}, string_lines=0, names_seen={}, tables=0, solved_pairs=0, periodic=0, worst_solution_diff=0.0)
    # ================= stage B: parseString
    try:
        sx = vlib.compile_harness("str_harness", build, ("femm", "luacomplex"))
        alphabet = ['"', '"', " ", "\t", "a", "b", "=", "\r", "<", "]", "x", "\v", "\f"]
        lines = []
        for t in range(300 if ck.tier == "quick" else 5000):
            n = rng.choice([0, 1, 2, 3, 5, 8, 13])
            s = "".join(rng.choice(alphabet) for _ in range(n))
            if rng.random() < 0.6:
                s = rng.choice(["", " ", "  \t", "\v", "\f "]) + '"' + s + '"' + rng.choice(["", "\r", " ", " \r"])
            lines.append(s)
        enc = ["str " + vlib.pct(l) for l in lines]
        a, _, _ = vlib.run_lines([sx], enc)
        b, _, _ = vlib.run_lines([mx, "filecodec"], enc)
        stats["string_lines"] = len(lines)
        for l, x, y in zip(lines, a, b):
            if x != y:
                ck.obligation_broken("correspondence parseString<->Model/FileCodec.lean parseStr on %r: %s vs %s" % (l, x, y),
                                     dict(line=l, impl=x, model=y))
                break
    except vlib.BuildError as e:
        ck.obligation_broken("correspondence str_harness<->parseString: " + str(e)[:300])
    # ================= stage P
    work = vlib.workdir("C14")
    nprob = 18 if ck.tier == "quick" else 240
    nviol = 0
    try:
        for t in range(nprob):
            kind = "mhe"[t % 3]
            runnable = (t % 6) >= 3        # half of the problems stay solvable so that the saved file can be run through the tools
            p = gen.gen_any(kind, rng)
            if t % 4 == 1:
                p.ptype = "axi"
                if not runnable:
                    # an exterior region in every such problem; its centre alternately AT z = 0 (a legal position, not "undefined") and off it
                    stats["exterior_regions"] = stats.get("exterior_regions", 0) + 1
                    p.ext = (0.0 if stats["exterior_regions"] % 2 else rng.choice([1.5, -2.0]), rng.choice([10.0, 20.0]), rng.choice([5.0, 8.0]))
            if t % 9 == 8:
                p.pointprops, p.circprops = [], []
                for n in p.nodes:
                    n["bc"] = -1
                    n["cond"] = -1
                for s in p.segs + p.arcs:
                    s["cond"] = -1
                for l in p.labels:
                    l["circ"] = -1
            p = decorate(p, rng, runnable)
            if runnable:
                # runnable problems stay magnetostatic: the decoration's arbitrary (unused) laminated nonlinear materials are not meant to be solved at 50 Hz
                p.freq = 0.0
                p.smartmesh = rng.choice([0, None, 1])
                for lab in p.labels:
                    if lab["meshsize"] <= 0:
                        lab["meshsize"] = rng.choice([1.0, 1.5])
            style = "femm42" if t % 2 else "lf"
            ext = femmio.EXT[kind]
            d = os.path.join(work, "p%d" % t)
            os.makedirs(d)
            text = p.text(crlf=False)
            if style == "femm42":
                text = restyle(text, rng)
            with open(os.path.join(d, "p" + ext), "w", newline="") as f:
                f.write(text)
            shutil.copy(os.path.join(d, "p" + ext), os.path.join(d, "orig" + ext))
            stats["problems"] += 1
            stats["by_kind"][kind] = stats["by_kind"].get(kind, 0) + 1
            stats["styles"][style] = stats["styles"].get(style, 0) + 1
            for lst in (p.pointprops, p.bdryprops, p.blockprops, p.circprops):
                for dct in lst:
                    stats["names_seen"][dct["name"]] = stats["names_seen"].get(dct["name"], 0) + 1
            stats["tables"] += sum(1 for b in p.blockprops if b.get("BH") or b.get("TK"))
            nprops = len(p.pointprops) + len(p.bdryprops) + len(p.blockprops) + len(p.circprops)
            ck.case((kind, style, t, nprops), nontrivial=nprops > 0,
                    sample=dict(physics=kind, style=style, properties=nprops, runnable=runnable) if t < 3 else None)
            pre = kind + "i_"
            rc, out = femmcli(build, d, ['open("p%s")' % ext, '%ssaveas("q%s")' % (pre, ext), '%sclose()' % pre,
                                         'open("q%s")' % ext, '%ssaveas("r%s")' % (pre, ext)])
            if rc != 0 or not os.path.exists(os.path.join(d, "r" + ext)):
                if nviol < 4:
                    nviol += 1
                    ck.violation("load-save-failed:" + kind, "femmcli could not load and save a well-formed %s file (%s style): rc=%s %s"
                                 % (ext, style, rc, out[-300:]), dict(files=files_of(d)))
                continue
            A = femmio.read_problem(os.path.join(d, "orig" + ext))
            B = femmio.read_problem(os.path.join(d, "q" + ext))
            diffs = diff_problems(A, B, kind)
            if diffs and nviol < 4:
                nviol += 1
                w, a, b = diffs[0]
                key = re_key(w)
                ck.violation("meaning-changed:%s:%s" % (kind, key),
                             "%s file (%s style) loaded and saved by femmcli: %s was %r, the saved file says %r (%d differences in all)"
                             % (ext, style, w, a, b, len(diffs)), dict(files=files_of(d), differences=[(w, repr(a), repr(b)) for w, a, b in diffs[:20]]))
                continue
            qb = open(os.path.join(d, "q" + ext), "rb").read()
            rb = open(os.path.join(d, "r" + ext), "rb").read()
            if qb != rb:
                C = femmio.read_problem(os.path.join(d, "r" + ext))
                d2 = diff_problems(B, C, kind)
                if d2 and nviol < 4:
                    nviol += 1
                    w, a, b = d2[0]
                    ck.violation("not-idempotent:%s:%s" % (kind, re_key(w)), "saving a loaded %s file twice: %s changes from %r to %r" % (ext, w, a, b),
                                 dict(files=files_of(d)))
                    continue
            # the saved file goes through the real tools with the same result
            if runnable and (ck.tier == "thorough" or stats["solved_pairs"] < 6):
                res = []
                for nm in ("orig", "q"):
                    dd = os.path.join(d, "run_" + nm)
                    os.makedirs(dd)
                    shutil.copy(os.path.join(d, nm + ext), os.path.join(dd, "p" + ext))
                    run = Run.__new__(Run)
                    run.build, run.dir, run.prob, run.base, run.file = build, dd, p, os.path.join(dd, "p"), os.path.join(dd, "p" + ext)
                    run.mesh_out = run.solve_out = ""
                    if run.mesh(timeout=120) != 0 or run.solve(timeout=240) != 0:
                        res.append(("failed", (run.mesh_out + run.solve_out)[-300:]))
                    else:
                        res.append(("ok", femmio.read_solution(run.solution_path(), kind)))
                if res[0][0] == "ok":
                    stats["solved_pairs"] += 1
                    if res[1][0] != "ok":
                        if nviol < 4:
                            nviol += 1
                            ck.violation("saved-file-rejected:" + kind, "the file saved by femmcli is not accepted by the mesher / solver although the original is: %s"
                                         % res[1][1], dict(files=files_of(d)))
                    else:
                        s0, s1 = res[0][1], res[1][1]
                        v0 = [n[2] for n in s0["nodes"]]
                        v1 = [n[2] for n in s1["nodes"]]
                        sc = max(abs(v) for v in v0) or 1.0
                        dd_ = max(abs(a - b) for a, b in zip(v0, v1)) / sc if len(v0) == len(v1) else float("inf")
                        stats["worst_solution_diff"] = max(stats["worst_solution_diff"], dd_ if dd_ != float("inf") else 1e300)
                        if dd_ > 1e-9 and nviol < 4:
                            nviol += 1
                            ck.violation("saved-file-meaning:" + kind, "the file saved by femmcli gives a different solution than the original (%s nodes vs %s, max difference %.3g)"
                                         % (len(v0), len(v1), dd_), dict(files=files_of(d)))
        # periodic problems: fmesher saves the document over its input
        for t in range(2 if ck.tier == "quick" else 12):
            p = femmio.Problem("m")
            p.units = "centimeters"
            W, H = rng.choice([4.0, 6.0]), rng.choice([3.0, 5.0])
            a, b, c, d_ = p.add_node(0, 0), p.add_node(W, 0), p.add_node(W, H), p.add_node(0, H)
            p.blockprops = [dict(name="iron core", Mu_x=500.0, Mu_y=500.0, J_re=1.0, Phi_hx=3.0, Phi_hy=7.0, LamFill=0.95, LamType=rng.choice([0, 1]))]
            p.bdryprops = [dict(name="per", type=rng.choice([4, 5])), dict(name="zero", type=0)]
            p.add_seg(a, b, bc=1); p.add_seg(b, c, bc=0); p.add_seg(c, d_, bc=1); p.add_seg(d_, a, bc=0)
            p.add_label(W / 2, H / 2, 0, meshsize=1.0)
            p.smartmesh = rng.choice([0, 1, None])
            p.forcemaxmesh = rng.choice([0, 1, None])
            p.comment = 'periodic "case"'
            p.freq = rng.choice([0.0, 60.0])
            d = os.path.join(work, "per%d" % t)
            os.makedirs(d)
            p.write(os.path.join(d, "p.fem"))
            shutil.copy(os.path.join(d, "p.fem"), os.path.join(d, "orig.fem"))
            r = subprocess.run([os.path.join(build, "cfemm", "bin", "fmesher"), "p.fem"], cwd=d, stdout=subprocess.PIPE, stderr=subprocess.STDOUT, text=True, timeout=120)
            stats["periodic"] += 1
            ck.case(("periodic", t), nontrivial=True)
            if r.returncode != 0:
                ck.violation("periodic-mesher-failed", "fmesher failed on a periodic problem: " + r.stdout[-300:], dict(files=files_of(d)))
                continue
            diffs = diff_problems(femmio.read_problem(os.path.join(d, "orig.fem")), femmio.read_problem(os.path.join(d, "p.fem")), "m")
            if diffs and nviol < 5:
                nviol += 1
                w, a_, b_ = diffs[0]
                ck.violation("meaning-changed:m:periodic:" + re_key(w), "fmesher on a periodic problem rewrote its input file: %s was %r, is now %r"
                             % (w, a_, b_), dict(files=files_of(d), differences=[(w, repr(x), repr(y)) for w, x, y in diffs[:20]]))
    finally:
        shutil.rmtree(work, ignore_errors=True)
    stats["names_seen"] = dict(sorted(stats["names_seen"].items(), key=lambda kv: -kv[1])[:12])
    ck.notes["input_distribution"] = stats
    return ck.finish()


def re_key(where):
    """stable key of a difference: drop indices"""
    import re
    return re.sub(r"\s+\d+\s*", ":", where).replace(" ", "-")
