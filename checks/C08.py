"""C08 — no memory error or undefined behaviour on well-formed problems and scripts.

Lean cannot decide C++ memory safety.  stage A carries the anchored *logic* mechanisms as small models with theorems
(Properties/C08.lean: a vector with capacity and buffer generation — the range-for + push_back loop shape reaches a
stale-iterator dereference, the indexed loop over the original size never does, for all inputs; stale cached index
vs clamped index).  The runtime part, which decides the property on the real code, is evidence of level `other`:
every scenario family used by the other checks is executed on the sanitizer build (ASan + UBSan, xfemm's own C++
only), a subset under valgrind memcheck on the plain build (uninitialised reads), and every tool run is repeated and
its output files byte-compared (results do not depend on allocator layout or stale memory).
"""
import os, random, re, shutil, subprocess, sys, hashlib
sys.path.insert(0, os.path.join(os.path.dirname(os.path.dirname(os.path.abspath(__file__))), "harness", "py"))
from tools import vlib
import femmio, gen

SOLVER = {"e": "esolver", "h": "hsolver", "m": "fsolver"}
PRE = {"e": "e", "h": "h", "m": "m"}
SAN_ENV = dict(ASAN_OPTIONS="detect_leaks=0:abort_on_error=0:halt_on_error=1", UBSAN_OPTIONS="print_stacktrace=1:halt_on_error=1")
REPORT = re.compile(r"ERROR: AddressSanitizer|runtime error:|ERROR: UndefinedBehaviorSanitizer|SUMMARY: (Address|UndefinedBehavior)Sanitizer")
VG_BAD = re.compile(r"Invalid (read|write)|uninitialised value|Use of uninitialised|Invalid free|Mismatched free|Source and destination overlap")


def periodic_arc_cell(kind):
    """translational cell whose left and right sides are congruent arcs carrying a periodic boundary condition"""
    p = femmio.Problem(kind)
    p.units = "centimeters"
    p.smartmesh = 0
    if kind == "e":
        p.blockprops = [dict(name="m", ex=2.0, ey=2.0, qv=1e-6)]
        p.bdryprops = [dict(name="per", type=3), dict(name="fix", type=0, Vs=0.0)]
    elif kind == "h":
        p.blockprops = [dict(name="m", Kx=2.0, Ky=2.0, qv=100.0)]
        p.bdryprops = [dict(name="per", type=4), dict(name="fix", type=0, Tset=300.0)]
    else:
        p.blockprops = [dict(name="m", Mu_x=1.0, Mu_y=1.0, J_re=1.0)]
        p.bdryprops = [dict(name="per", type=4), dict(name="fix", type=0)]
    a, b, c, d = p.add_node(0, 0), p.add_node(4, 0), p.add_node(4, 1), p.add_node(0, 1)
    p.add_seg(a, b, bc=1)
    p.add_seg(d, c, bc=1)
    p.add_arc(a, d, 30.0, 5.0, bc=0)
    p.add_arc(b, c, 30.0, 5.0, bc=0)
    p.add_label(2.0, 0.5, 0, meshsize=0.3)
    return p


def lua_post(kind, files, pts):
    pre = PRE[kind]
    l = []
    for f in files:
        l += ['open("%s")' % f, "%si_analyze()" % pre, "%si_loadsolution()" % pre]
        for (x, y) in pts:
            l.append("print(%so_getpointvalues(%g,%g))" % (pre, x, y))
        l += ["%so_selectblock(%g,%g)" % (pre, pts[0][0], pts[0][1]), "print(%so_blockintegral(%d))" % (pre, 5 if kind == "m" else 0),
              "%so_clearblock()" % pre, "%so_close()" % pre, "%si_close()" % pre]
    return "\n".join(l) + "\n"


def lua_edit(kind):
    pre = PRE[kind] + "i_"
    doc = {"m": 0, "e": 1, "h": 2}[kind]
    l = ["newdocument(%d)" % doc]
    for i in range(6):
        l += ["%saddnode(%g,%g)" % (pre, i, 0), "%saddnode(%g,%g)" % (pre, i, 1), "%saddsegment(%g,0,%g,1)" % (pre, i, i)]
    l += ["%saddarc(0,0,1,0,60,5)" % pre, "%saddarc(2,1,3,1,90,10)" % pre, "%saddblocklabel(0.5,0.5)" % pre, "%saddblocklabel(2.5,0.4)" % pre]
    for i in range(6):
        l += ["%sselectsegment(%g,0.5)" % (pre, i)]
    l += ["%ssetgroup(3)" % pre, "%sclearselected()" % pre,
          "%sselectgroup(3)" % pre, "%scopytranslate(0,2,3,4)" % pre, "%sclearselected()" % pre,
          "%sselectgroup(3)" % pre, "%smirror(-1,0,-1,1,4)" % pre, "%sclearselected()" % pre,
          "%sselectgroup(3)" % pre, "%scopyrotate(10,10,30,2,4)" % pre, "%sclearselected()" % pre,
          "%sselectarcsegment(0.5,-0.1)" % pre, "%sselectlabel(0.5,0.5)" % pre, "%scopytranslate(0,-3,2)" % pre, "%sclearselected()" % pre]
    # rounded corners: an outline drawn counter-clockwise and one drawn clockwise (every side starts where the previous one ended), all four
    # corners each; a corner of a line and an arc; then deletions and moves of what was made (create-radius adds points, deletes the corner and
    # the pieces of the sides next to it, and adds an arc - in that order)
    for (x0, order) in ((20.0, [(0, 0), (4, 0), (4, 3), (0, 3)]), (30.0, [(0, 0), (0, 3), (4, 3), (4, 0)])):
        pts = [(x0 + a, b) for (a, b) in order]
        for (x, y) in pts:
            l.append("%saddnode(%g,%g)" % (pre, x, y))
        for i in range(4):
            a, b = pts[i], pts[(i + 1) % 4]
            l.append("%saddsegment(%g,%g,%g,%g)" % (pre, a[0], a[1], b[0], b[1]))
        for i, rr in enumerate((0.5, 0.4, 0.75, 0.3)):
            l.append("%screateradius(%g,%g,%g)" % (pre, pts[i][0], pts[i][1], rr))
    l += ["%saddnode(40,0)" % pre, "%saddnode(42,0)" % pre, "%saddnode(42,2)" % pre, "%saddsegment(40,0,42,0)" % pre, "%saddarc(42,0,42,2,90,5)" % pre,
          "%screateradius(42,0,0.25)" % pre,
          "%sselectnode(20.5,0)" % pre, "%sselectnode(24,0.4)" % pre, "%sdeleteselectednodes()" % pre,
          "%sselectsegment(32,3)" % pre, "%sselectarcsegment(30.1,0.1)" % pre, "%smoverotate(32,1.5,45,4)" % pre, "%sclearselected()" % pre,
          "%sselectsegment(41,0)" % pre, "%sscale(40,0,1.5,1)" % pre, "%sclearselected()" % pre,
          '%ssaveas("edited%s")' % (pre, femmio.EXT[kind])]
    return "\n".join(l) + "\n"


def main(argv):
    ck = vlib.Check("C08", "other", argv)
    ck.notes["explanation"] = (
        "Memory safety and absence of undefined behaviour of C++ are not expressible as a Lean theorem about a model: this check is "
        "runtime evidence. Every scenario family of the other checks (generated problems of all three physics through mesher and "
        "solvers, periodic arc boundaries, transient heat steps, Lua sessions that analyse / load / query several problems in a row, "
        "Lua edit scripts with copy / mirror / rotate that grow the lists) is executed on an ASan+UBSan build of xfemm's own C++ "
        "(Triangle, third party C, is not instrumented), a subset under valgrind memcheck on the plain build for uninitialised "
        "reads, and each tool run is repeated with the outputs byte-compared. The Lean part (Properties/C08.lean) proves, for the "
        "anchored loop shapes, that a range-for with push_back reaches a stale-iterator dereference while the indexed loop over the "
        "original size cannot, and that a clamped cached index is always in range.")
    ck.cov["rule"] = ("scenario = (family, physics, seed); families: mesh+solve of generated problems, periodic arc cell, transient heat "
                      "step, Lua post-processing session over two problems (large then small mesh), Lua edit script with copy / mirror / "
                      "rotate; each run under ASan+UBSan, some under valgrind, each tool run twice for determinism")
    ck.assumptions += ["Triangle (third-party C) is excluded: Shewchuk's expansion arithmetic performs a known benign over-read",
                       "sanitizers and memcheck observe the executions that were run: this is not a proof of memory safety"]
    ck.run_stage_a()
    san = vlib.build_repo("san")
    plain = vlib.build_repo("plain")
    work = vlib.workdir("C08")
    rng = ck.rng
    stats = dict(san_runs=0, valgrind_runs=0, determinism_pairs=0, families={})
    env = dict(os.environ, **SAN_ENV)

    def tool(b, n):
        return os.path.join(b, "cfemm", "bin", n)

    def run_san(name, argv_, cwd, files_for_replay, timeout=600):
        stats["san_runs"] += 1
        try:
            r = subprocess.run(argv_, cwd=cwd, env=env, stdout=subprocess.PIPE, stderr=subprocess.STDOUT, text=True, timeout=timeout, errors="replace")
            out, rc = r.stdout, r.returncode
        except subprocess.TimeoutExpired:
            out, rc = "timeout", -999
        if REPORT.search(out) or rc < 0:
            m = REPORT.search(out)
            where = re.findall(r"#\d+ 0x[0-9a-f]+ in (\S+) (\S+)", out)
            own = [w for w in where if "/cfemm/" in w[1] and "triangle" not in w[1]]
            key = "%s:%s" % (name.split(":")[0], own[0][1].split("/cfemm/")[-1].split(":")[0] if own else "crash")
            ck.violation(key, "sanitizer report / abnormal termination (rc=%s) in scenario %s: %s" % (rc, name, (out[m.start():m.start() + 400] if m else out[-300:]).replace("\n", " | ")),
                         dict(scenario=name, argv=argv_, files=files_for_replay(), tail=out[-3000:]))
            return None
        return rc, out

    def files_of(d):
        def f():
            out = {}
            for n in sorted(os.listdir(d)):
                pth = os.path.join(d, n)
                if os.path.isfile(pth) and os.path.getsize(pth) < 200000 and n.endswith((".fem", ".fee", ".feh", ".lua")):
                    out[n] = open(pth, errors="replace").read()
            return out
        return f

    def digest(d, exts):
        h = {}
        for n in sorted(os.listdir(d)):
            if n.endswith(exts):
                h[n] = hashlib.sha256(open(os.path.join(d, n), "rb").read()).hexdigest()
        return h

    nper = 2 if ck.tier == "quick" else 10
    try:
        for kind in "ehm":
            ext, sext = femmio.EXT[kind], femmio.SOL[kind]
            # ---- family 1: generated problems through mesher + solver (twice: determinism)
            for k in range(nper):
                p = gen.gen_any(kind, rng, mix=(kind != "m"))
                p.smartmesh = rng.choice([0, 1])
                for lab in p.labels:
                    if lab["meshsize"] <= 0:
                        lab["meshsize"] = 1.0
                digs = []
                for rep in range(2):
                    d = os.path.join(work, "f1_%s%d_%d" % (kind, k, rep))
                    os.makedirs(d)
                    p.write(os.path.join(d, "p" + ext))
                    r1 = run_san("mesh+solve:%s" % kind, [tool(san, "fmesher"), "p" + ext], d, files_of(d))
                    if r1 is None:
                        break
                    digs.append(digest(d, (".node", ".ele", ".edge", ".pbc")))
                    r2 = run_san("mesh+solve:%s" % kind, [tool(san, SOLVER[kind]), "p"], d, files_of(d))
                    if r2 is None:
                        break
                    digs[-1].update(digest(d, (sext,)))
                ck.case(("mesh+solve", kind, k), sample=dict(family="mesh+solve", physics=kind, nodes=len(p.nodes)) if k == 0 and kind == "e" else None)
                stats["families"]["mesh+solve"] = stats["families"].get("mesh+solve", 0) + 1
                if len(digs) == 2:
                    stats["determinism_pairs"] += 1
                    if digs[0] != digs[1]:
                        diff = [n for n in digs[0] if digs[0][n] != digs[1].get(n)]
                        ck.violation("nondeterministic:%s" % kind, "two runs of the same input give different output files: %s" % diff,
                                     dict(scenario="mesh+solve", files=files_of(os.path.join(work, "f1_%s%d_0" % (kind, k)))()))
            # ---- family 2: periodic arc cell
            d = os.path.join(work, "f2_%s" % kind)
            os.makedirs(d)
            pc = periodic_arc_cell(kind)
            pc.write(os.path.join(d, "p" + ext))
            ck.case(("periodic-arcs", kind), sample=dict(family="periodic-arcs", physics=kind) if kind == "h" else None)
            stats["families"]["periodic-arcs"] = stats["families"].get("periodic-arcs", 0) + 1
            r = run_san("periodic-arcs:%s" % kind, [tool(san, "fmesher"), "p" + ext], d, files_of(d))
            if r is not None and r[0] == 0:
                run_san("periodic-arcs:%s" % kind, [tool(san, SOLVER[kind]), "p"], d, files_of(d))
            # ---- family 3: Lua post-processing session over two problems, the second with the smaller mesh
            d = os.path.join(work, "f3_%s" % kind)
            os.makedirs(d)
            big = gen.gen_rects(kind, random.Random(rng.random()), units="centimeters")
            small = gen.gen_rects(kind, random.Random(rng.random()), units="centimeters")
            for lab in big.labels:
                lab["meshsize"] = 0.3
            for lab in small.labels:
                lab["meshsize"] = 3.0
            big.smartmesh = small.smartmesh = 0
            big.write(os.path.join(d, "big" + ext)); small.write(os.path.join(d, "small" + ext))
            pts = [(0.0625, 0.0625), (1.3, 0.9), (3.7, 2.2), (-5.0, -5.0), (0.5, 0.25)]
            open(os.path.join(d, "s.lua"), "w").write(lua_post(kind, ["big" + ext, "small" + ext, "big" + ext], pts))
            # pristine copy for the second run (xi_analyze saves the document over its input file)
            dv = os.path.join(work, "f3v_%s" % kind)
            shutil.copytree(d, dv)
            ck.case(("lua-post", kind), sample=dict(family="lua-post", physics=kind, queries=pts) if kind == "m" else None)
            stats["families"]["lua-post"] = stats["families"].get("lua-post", 0) + 1
            r = run_san("lua-post:%s" % kind, [tool(san, "femmcli"), "--lua-script=s.lua"], d, files_of(d), timeout=900)
            outs = [r[1]] if r else []
            # same session under valgrind on the plain build (uninitialised reads are invisible to ASan)
            stats["valgrind_runs"] += 1
            try:
                rv = subprocess.run(["valgrind", "--error-exitcode=0", "-q", tool(plain, "femmcli"), "--lua-script=s.lua"], cwd=dv, stdout=subprocess.PIPE,
                                    stderr=subprocess.PIPE, text=True, timeout=1500, errors="replace")
                m = VG_BAD.search(rv.stderr)
                if m or rv.returncode < 0:
                    fr = re.findall(r"(?:at|by) 0x[0-9A-F]+: (\S+) \(([^)]*)\)", rv.stderr)
                    own = [x for x in fr if x[1].endswith((".cpp:%s" % x[1].split(":")[-1],)) and "triangle" not in x[1]]
                    key = "valgrind:%s" % (own[0][1].split(":")[0] if own else "crash")
                    ck.violation(key, "valgrind memcheck: %s in a Lua post-processing session (%s): %s" % (m.group(0) if m else "abnormal termination", kind,
                                                                                                         rv.stderr[m.start() if m else 0:(m.start() if m else 0) + 500].replace("\n", " | ")),
                                 dict(scenario="lua-post-valgrind", files=files_of(dv)(), tail=rv.stderr[-3000:]))
                else:
                    outs.append(rv.stdout)
            except subprocess.TimeoutExpired:
                pass
            # determinism of the values printed by the script (sanitizer build vs plain build under valgrind)
            if len(outs) == 2:
                a = [l for l in outs[0].splitlines() if re.match(r"^[-\d.e+\s\t]+$", l) and l.strip()]
                b = [l for l in outs[1].splitlines() if re.match(r"^[-\d.e+\s\t]+$", l) and l.strip()]
                stats["determinism_pairs"] += 1
                if a != b:
                    k0 = next((i for i in range(min(len(a), len(b))) if a[i] != b[i]), min(len(a), len(b)))
                    ck.violation("nondeterministic-post:%s" % kind, "the same Lua session prints different values on two builds / runs: line %d: %r vs %r"
                                 % (k0, a[k0] if k0 < len(a) else None, b[k0] if k0 < len(b) else None), dict(scenario="lua-post", files=files_of(d)()))
            # ---- family 4: Lua edit script with copy / mirror / rotate
            d = os.path.join(work, "f4_%s" % kind)
            os.makedirs(d)
            open(os.path.join(d, "s.lua"), "w").write(lua_edit(kind))
            ck.case(("lua-edit", kind), sample=dict(family="lua-edit", physics=kind) if kind == "e" else None)
            stats["families"]["lua-edit"] = stats["families"].get("lua-edit", 0) + 1
            run_san("lua-edit:%s" % kind, [tool(san, "femmcli"), "--lua-script=s.lua"], d, files_of(d))
            # the same editing session under valgrind on the plain build (uninitialised members of freshly drawn entities are invisible to
            # ASan), and the drawing it saves must not depend on the build / on stale memory
            dv2 = os.path.join(work, "f4v_%s" % kind)
            os.makedirs(dv2)
            shutil.copy(os.path.join(d, "s.lua"), dv2)
            stats["valgrind_runs"] += 1
            try:
                rv = subprocess.run(["valgrind", "--error-exitcode=0", "-q", tool(plain, "femmcli"), "--lua-script=s.lua"], cwd=dv2, stdout=subprocess.PIPE,
                                    stderr=subprocess.PIPE, text=True, timeout=1500, errors="replace")
                m = VG_BAD.search(rv.stderr)
                if m or rv.returncode < 0:
                    fr = re.findall(r"(?:at|by) 0x[0-9A-F]+: (\S+) \(([^)]*)\)", rv.stderr)
                    own = [x for x in fr if ".cpp:" in x[1] and "triangle" not in x[1]]
                    ck.violation("valgrind:%s" % (own[0][1].split(":")[0] if own else "crash"),
                                 "valgrind memcheck: %s in a Lua editing session (%s): %s" % (m.group(0) if m else "abnormal termination", kind,
                                                                                             rv.stderr[m.start() if m else 0:(m.start() if m else 0) + 500].replace("\n", " | ")),
                                 dict(scenario="lua-edit-valgrind", files=files_of(dv2)(), tail=rv.stderr[-3000:]))
                fa, fb = os.path.join(d, "edited" + femmio.EXT[kind]), os.path.join(dv2, "edited" + femmio.EXT[kind])
                if os.path.exists(fa) and os.path.exists(fb):
                    stats["determinism_pairs"] += 1
                    if open(fa, "rb").read() != open(fb, "rb").read():
                        la, lb = open(fa, errors="replace").read().splitlines(), open(fb, errors="replace").read().splitlines()
                        k0 = next((i for i in range(min(len(la), len(lb))) if la[i] != lb[i]), min(len(la), len(lb)))
                        ck.violation("nondeterministic-edit:%s" % kind, "the same Lua editing session saves different drawings on two builds: line %d: %r vs %r"
                                     % (k0 + 1, la[k0] if k0 < len(la) else None, lb[k0] if k0 < len(lb) else None), dict(scenario="lua-edit", files=files_of(d)()))
            except subprocess.TimeoutExpired:
                pass
        # ---- family 5: transient heat step
        d = os.path.join(work, "f5")
        os.makedirs(d)
        p = gen.gen_rects("h", random.Random(5), units="centimeters")
        p.smartmesh = 0
        for lab in p.labels:
            lab["meshsize"] = 1.0
        p.write(os.path.join(d, "p0.feh"))
        ck.case(("transient", "h"))
        stats["families"]["transient"] = 1
        if run_san("transient:h", [tool(san, "fmesher"), "p0.feh"], d, files_of(d)) is not None:
            for e in (".node", ".ele", ".edge", ".pbc"):
                shutil.copy(os.path.join(d, "p0" + e), os.path.join(d, "p1" + e))
            if run_san("transient:h", [tool(san, "hsolver"), "p0"], d, files_of(d)) is not None:
                p.dt = 3.0
                p.prevsoln = "p0.anh"
                for b in p.blockprops:
                    b["Kt"] = 1.5
                p.write(os.path.join(d, "p1.feh"))
                run_san("transient:h", [tool(san, "hsolver"), "p1"], d, files_of(d))
    finally:
        shutil.rmtree(work, ignore_errors=True)
    ck.notes["input_distribution"] = stats
    return ck.finish()
