"""C13 — post-processed integrals are additive and agree with geometry and terminals.

stage A: Properties/C13.lean (additivity over disjoint selections, dependence on the selected set only, toggle laws,
         energy = half the sum of terminal value x reaction, = half the integral of A.J)
stage B: selection sequences (block / group / clear, with repeats) through the real femmcli vs Model/PostInt.lean: the area
         integral after each sequence must be the sum of the areas of exactly the labels the model says are selected
stage P: on generated problems of all three physics (planar + axisymmetric): per-label extensive integrals vs integrals over
         random subsets in random order and via groups; block area / volume vs the drawn regions (shoelace, depth, revolved
         volume); contour length along drawn entities vs drawn length; electrostatic energy vs half the sum of V*q of the
         conductors; magnetostatic energy vs half the integral of A.J and vs coenergy
"""
import copy, math, os, shutil, sys
sys.path.insert(0, os.path.join(os.path.dirname(os.path.dirname(os.path.abspath(__file__))), "harness", "py"))
from tools import vlib
from tools.vlib import d2tok, tok2d
import femmio, gen, lua_post, meshgeom
from femmio import UNIT_M
from runner import Run

TYPES = {"e": dict(area=1, volume=2, energy=0), "h": dict(area=1, volume=2), "m": dict(area=5, volume=10, energy=2, AJ=0, coenergy=17, current=7, resistive_losses=4, total_losses=6)}
# averages (not additive): asked of the real post-processor only to be compared with the integrand model
AVERAGES = {"h": dict(avgT=0, avgF=3, avgG=4)}


def region_area(r):
    return abs(meshgeom.poly_area(r["outer"])) - sum(abs(meshgeom.poly_area(h)) for h in r["inner"])


def region_volume_axi(r):
    """volume of revolution of a polygon region about the y axis: int 2*pi*x dA"""
    def mom(poly):
        s = 0.0
        n = len(poly)
        for i in range(n):
            (x0, y0), (x1, y1) = poly[i], poly[(i + 1) % n]
            s += (x0 * y1 - x1 * y0) * (x0 + x1)
        return abs(s) / 6.0          # = int x dA
    return 2 * math.pi * (mom(r["outer"]) - sum(mom(h) for h in r["inner"]))



def axi_energy_identity_errors(build, work, name, p):
    """(|W - 1/2 int A.J| / W, |W - 1/2 sum I*Lambda| / W or None) of a magnetostatic problem through the real tools (all blocks selected)"""
    run = Run(build, work, name, p)
    if run.mesh() != 0 or run.solve() != 0:
        return None
    s = lua_post.Session("m", "p" + femmio.EXT["m"], analyze=False)
    s.group_select()
    s.block_integral("W", 2)
    s.block_integral("AJ", 0)
    s.clear_blocks()
    used = [c for ci_, c in enumerate(p.circprops) if any(l_["circ"] == ci_ for l_ in p.labels)]
    for c in used:
        s.conductor("T_" + c["name"], c["name"])
    rc, out, raw = s.run(build, run.dir, timeout=900)
    r_ = lambda z: z.real if isinstance(z, complex) else z
    if rc != 0 or out.get("W", [None])[0] is None or out.get("AJ", [None])[0] is None or not r_(out["W"][0]) > 0:
        return None
    W = r_(out["W"][0])
    eAJ = abs(W - 0.5 * r_(out["AJ"][0])) / W
    eT = None
    if used and not any(m.get("J_re") for m in p.blockprops) and all(out.get("T_" + c["name"]) and len(out["T_" + c["name"]]) >= 3 and out["T_" + c["name"]][2] is not None for c in used):
        eT = abs(W - sum(0.5 * r_(out["T_" + c["name"]][0]) * r_(out["T_" + c["name"]][2]) for c in used)) / W
    return eAJ, eT


def axi_mesh_level(build, work, name, p, err, which):
    """the axisymmetric energy / A.J / flux-linkage integrals use different quadratures of the modified potential, so the identities hold to
    mesh accuracy only (known finding) - decided, not assumed: on a mesh four times as fine the deviation must at least halve"""
    if not (err < 0.5):
        return False
    for fac in (0.25, 0.125):
        # (coarse meshes are not in the asymptotic range: 2.1e-4, 8.0e-4, 1.5e-4, 9.7e-8 at mesh sizes 1, 1/2, 1/4, 1/8 on one drawing -
        #  a wrong weight or unit would stay where it is under refinement)
        pf = copy.deepcopy(p)
        for lab_ in pf.labels:
            if lab_["meshsize"] > 0:
                lab_["meshsize"] *= fac
        ef = axi_energy_identity_errors(build, work, name + "_fine%d" % int(1 / fac), pf)
        if ef is None or ef[which] is None:
            return False
        if ef[which] < 0.5 * err or max(err, ef[which]) < 1e-4:
            return True
    return False


def main(argv):
    ck = vlib.Check("C13", "proof", argv)
    ck.cov["rule"] = ("generated problems (nested boxes, materials, conductors / circuits, several labels in several groups) of all three "
                      "physics, planar and axisymmetric; per problem: every label alone, random subsets in random order with repeated "
                      "toggles, group selections; contours along every outer side; non-trivial = at least two labels with non-zero energy")
    ck.assumptions += ["label interior points used for selection are the generator's label positions",
                       "energy identities are checked on charge-free electrostatic and linear magnetostatic problems"]
    ck.run_stage_a()
    build = vlib.build_repo("plain")
    mx = vlib.model_exe()
    work = vlib.workdir("C13")
    rng = ck.rng
    stats = dict(problems=0, subsets=0, selection_sequences=0, worst_additivity_error=0.0, worst_geometry_error=0.0, worst_energy_identity_error=0.0,
                 contours=0, by_physics={})
    plan = [("e", False, False), ("e", True, False), ("h", False, False), ("m", False, False), ("m", True, False), ("h", True, False),
            ("m", False, True), ("m", True, True)]      # last two: time-harmonic magnetics (additivity, geometry; no static energy identity)
    plan_base = list(plan)
    if ck.tier == "thorough":
        plan = plan * 6
    try:
        for t, (kind, axi, harm) in enumerate(plan):
            # (axisymmetric magnetics is drawn in a unit other than metres: radii enter its integrands with and without the length conversion)
            p = gen.gen_rects(kind, rng, units=rng.choice(["millimeters", "centimeters", "inches"] + ([] if (kind == "m" and axi) else ["meters"])))
            p.ptype = "axi" if axi else "planar"
            p.smartmesh = 0
            p.precision = 1e-10
            p.depth = rng.choice([1.0, 2.0, 7.5])
            for i, lab in enumerate(p.labels):
                lab["meshsize"] = rng.choice([0.75, 1.0])
                lab["group"] = rng.choice([1, 2, 3])
            if kind == "e":
                for m in p.blockprops:
                    m["qv"] = 0.0
                p.bdryprops = [b for b in p.bdryprops if b["type"] == 0]
                for s in p.segs:
                    s["bc"] = 0 if s["bc"] >= 0 else -1
                for b in p.bdryprops:
                    b["Vs"] = 0.0
                p.pointprops = []
                for n in p.nodes:
                    n["bc"] = -1
                # the grounded boundary is made a conductor too so that every prescribed value belongs to a terminal
                p.circprops = [c for c in p.circprops if c["type"] == 1] or [dict(name="c0", V=10.0, q=0.0, type=1)]
                for s in p.segs + p.nodes:
                    if s["cond"] >= len(p.circprops):
                        s["cond"] = 0
                p.circprops.append(dict(name="gnd", V=0.0, q=0.0, type=1))
                for s in p.segs[:4]:
                    s["bc"] = -1
                    s["cond"] = len(p.circprops) - 1
                if not any(s["cond"] == 0 for s in p.segs):
                    p.add_node(0.125, 1.0, cond=0)
                    p.circprops[0]["V"] = 25.0
            if kind == "m":
                stats["magnetics_seen"] = stats.get("magnetics_seen", 0) + 1
                keep_lam = (rng.random() < 0.5) or True if stats["magnetics_seen"] % 2 == 1 else False      # every other one, whatever the draw
                # every magnetostatic problem that keeps laminations has an iron laminated ON EDGE in each of the two directions (linear, fill
                # below one, permeability well above one, used by a region): the stored energy of such a block against half of A.J is the only
                # place where the post-processor's pairing of the two effective permeabilities with the axes shows
                if keep_lam:
                    usedb = [l_["block"] for l_ in p.labels if l_["block"] >= 0]
                    for lt_, bi_ in zip((2, 1), usedb):
                        m_ = p.blockprops[bi_]
                        if not m_.get("BH"):
                            m_["LamType"], m_["LamFill"] = lt_, rng.choice([0.5, 0.8])
                            m_["Mu_x"] = max(m_.get("Mu_x", 1.0), 10.0)
                # (decided per problem, not by the position in the plan: planar AND axisymmetric problems get solid conductors in circuits)
                keep_sigma = (t // len(plan_base)) % 2 == 0        # (the quick tier has one repetition: it keeps them)
                stats["conducting_magnetics_problems"] = stats.get("conducting_magnetics_problems", 0) + int(keep_sigma)
                stats["laminated_magnetics_problems"] = stats.get("laminated_magnetics_problems", 0) + int(keep_lam and any("LamType" in m for m in p.blockprops))
                for m in p.blockprops:
                    m.pop("H_c", None)
                    if not keep_lam:
                        m.pop("LamType", None); m.pop("LamFill", None)      # every other magnetics problem keeps its (linear) laminations
                    elif m.get("LamType", 0) in (1, 2):
                        # on-edge laminations are defined for isotropic iron: the solvers take ONE permeability (mu_x for type 1, mu_y for
                        # type 2) for both directions, the post-processor pairs mu_x / mu_y with the directions - they agree when mu_x = mu_y
                        m["Mu_y"] = m["Mu_x"]
                    if not keep_sigma:
                        m.pop("Sigma", None)       # every second magnetics problem keeps its conductivities: resistive losses are non-trivial
                p.bdryprops = [b for b in p.bdryprops if b["type"] == 0]
                for b in p.bdryprops:
                    b.update(A_0=0.0, A_1=0.0, A_2=0.0)
                for s in p.segs:
                    s["bc"] = -1
                for s in p.segs[:4]:
                    s["bc"] = 0
                p.pointprops = []
                for n in p.nodes:
                    n["bc"] = -1
                if p.circprops and any(l_["circ"] >= 0 for l_ in p.labels) and rng.random() < 0.5:
                    for m in p.blockprops:
                        m["J_re"] = 0.0         # driven by circuit currents only: W = 1/2 sum I * flux linkage is checked too
                if not any(m["J_re"] for m in p.blockprops) and not p.circprops:
                    p.blockprops[0]["J_re"] = 1.0
                # the number of turns is a property of series-connected regions; in a parallel circuit every region is one turn (mixing
                # wound and solid conducting regions in ONE parallel circuit is outside the generated domain, as in C05: Static2D leaves
                # wound regions out of the conductance integral but still applies -sigma*dV in them, the post-processor does not)
                for lab in p.labels:
                    if lab["circ"] >= 0 and p.circprops[lab["circ"]]["type"] == 0:
                        lab["turns"] = 1
                if not any(l_["circ"] == 0 for l_ in p.labels):
                    # every magnetics problem has a circuit with a region (the generator draws 0-2 circuits)
                    if not p.circprops:
                        p.circprops = [dict(name="c0", I_re=rng.choice([1.0, -2.0, 0.5]), type=rng.choice([0, 1]))]
                    lab_ = p.labels[1 if len(p.labels) > 1 else 0]
                    lab_["circ"] = 0
                    lab_["turns"] = 1 if p.circprops[0]["type"] == 0 else rng.choice([1, 5])
                if keep_sigma and not harm:
                    # the regions of the first circuit are solid conductors (one turn, conducting): the solver applies a voltage gradient
                    # there (circuit record case 0), the branch of the post-processor's current density that differs planar / axisymmetric
                    for lab in p.labels:
                        if lab["circ"] == 0:
                            lab["turns"] = 1
                            if not p.blockprops[lab["block"]].get("Sigma"):
                                p.blockprops[lab["block"]]["Sigma"] = 10.0
                if harm:
                    p.freq = rng.choice([50.0, 400.0])
                    stats["harmonic_magnetics_problems"] = stats.get("harmonic_magnetics_problems", 0) + 1
                    for m in p.blockprops:
                        m.pop("LamType", None); m.pop("LamFill", None)       # on-edge laminations are refused in AC problems
                        m["Sigma"] = m.get("Sigma", rng.choice([0.0, 1.0, 10.0]))
                        if rng.random() < 0.3:
                            m["J_im"] = rng.choice([0.5, -1.0])
            run = Run(build, work, "p%d" % t, p)
            stats["problems"] += 1
            stats["by_physics"][kind] = stats["by_physics"].get(kind, 0) + 1
            ck.case((kind, axi, t, len(p.labels)), nontrivial=len(p.labels) >= 2,
                    sample=dict(physics=kind, axisymmetric=axi, units=p.units, labels=len(p.labels), groups=[l["group"] for l in p.labels]) if t < 3 else None)
            if run.mesh() != 0 or run.solve() != 0:
                ck.violation("tool-failed:" + kind, "mesher/solver failed: " + (run.mesh_out + run.solve_out)[-300:], dict(files=run.files()))
                continue
            types = dict(TYPES[kind], lamination_losses=3) if harm else TYPES[kind]
            nl = len(p.labels)
            pts = [(l["x"], l["y"]) for l in p.labels]
            s = lua_post.Session(kind, "p" + femmio.EXT[kind], analyze=False)
            # every label alone
            for l in range(nl):
                s.select_blocks([pts[l]])
                for name, ty in types.items():
                    s.block_integral("L%d_%s" % (l, name), ty)
                s.clear_blocks()
            # random selection sequences (toggles, groups)
            seqs = []
            for q in range(6 if ck.tier == "quick" else 12):
                seq = []
                for _ in range(rng.randint(1, 6)):
                    r = rng.random()
                    if r < 0.7:
                        seq.append(("block", rng.randrange(nl)))
                    elif r < 0.95:
                        seq.append(("group", rng.choice([0, 1, 2, 3])))
                    else:
                        seq.append(("clear",))
                # an empty selection makes the integral commands raise a Lua error: end every sequence non-empty
                st = [False] * nl
                for c in seq:
                    if c[0] == "block":
                        st[c[1]] = not st[c[1]]
                    elif c[0] == "group":
                        st = [(not b) if (c[1] == 0 or p.labels[i]["group"] == c[1]) else b for i, b in enumerate(st)]
                    else:
                        st = [False] * nl
                if not any(st):
                    seq.append(("block", rng.randrange(nl)))
                seqs.append(seq)
                for c in seq:
                    if c[0] == "block":
                        s.select_blocks([pts[c[1]]])
                    elif c[0] == "group":
                        s.group_select(c[1] if c[1] else None)
                    else:
                        s.clear_blocks()
                for name, ty in types.items():
                    s.block_integral("S%d_%s" % (q, name), ty)
                for name, ty in AVERAGES.get(kind, {}).items():
                    s.block_integral("S%d_%s" % (q, name), ty)
                if kind == "m" and not harm and not axi:
                    for name, ty in (("intA", 1), ("intBx", 8), ("intBy", 9)):
                        s.block_integral("S%d_%s" % (q, name), ty)
                s.clear_blocks()
            # contours along the four outer sides
            W = max(n["x"] for n in p.nodes[:4]); H = max(n["y"] for n in p.nodes[:4])
            sides = [((0, 0), (W, 0)), ((W, 0), (W, H)), ((W, H), (0, H)), ((0, H), (0, 0))]
            for i, (a, b) in enumerate(sides):
                s.contour([a, b])
                s.line_integral("C%d" % i, 2)
            if kind != "h":
                for c in p.circprops:
                    s.conductor("T_" + c["name"], c["name"])
            rc, out, raw = s.run(build, run.dir, timeout=900)
            if rc != 0:
                ck.violation("post-failed:" + kind, "femmcli post-processing failed (rc=%s): %s" % (rc, raw[-400:]), dict(files=run.files()))
                continue
            per = {name: [out.get("L%d_%s" % (l, name), [None])[0] for l in range(nl)] for name in types}
            # every integral that was asked for must have come back as a number (a silent nil would skip the comparisons below)
            asked_keys = ["L%d_%s" % (l, name) for l in range(nl) for name in types] + \
                         ["S%d_%s" % (q, name) for q in range(len(seqs)) for name in list(types) + list(AVERAGES.get(kind, {}))] + \
                         ["C%d" % i for i in range(len(sides))]
            missing = [k_ for k_ in asked_keys if out.get(k_, [None])[0] is None or (isinstance(out[k_][0], float) and out[k_][0] != out[k_][0])]
            if missing:
                ck.violation("integral-missing:%s" % kind, "%s post-processor returned no number for %d of %d requested integrals (first: %s = %r)"
                             % (kind, len(missing), len(asked_keys), missing[0], out.get(missing[0])), dict(files=run.files()))
            # ---- stage B + additivity: the model says which labels each sequence leaves selected
            lines = ["labels " + " ".join(str(l["group"]) for l in p.labels)]
            for seq in seqs:
                lines.append("clear")
                for c in seq:
                    lines.append("%s %d" % (c[0], c[1]) if len(c) > 1 else "clear")
                lines.append("state")
            rep, _, _ = vlib.run_lines([mx, "postint"], lines)
            states = [r for r in rep if r and r[0] in "01"]
            for q, seq in enumerate(seqs):
                stats["selection_sequences"] += 1
                sel = [c == "1" for c in states[q].split()] if q < len(states) else None
                if sel is None:
                    ck.obligation_broken("correspondence postint: driver reply missing")
                    break
                for name in types:
                    got = out.get("S%d_%s" % (q, name), [None])[0]
                    parts = [per[name][l] for l in range(nl) if sel[l]]
                    if got is None or any(v is None for v in parts):
                        continue
                    want = sum(parts)          # (complex for time-harmonic magnetics: both parts must add up)
                    sc = max(sum(abs(v) for v in per[name] if v is not None), 1e-300)
                    err = abs(got - want) / sc
                    stats["subsets"] += 1
                    if name.endswith("losses") and abs(got) > 0:
                        stats["nonzero_loss_integrals"] = stats.get("nonzero_loss_integrals", 0) + 1
                    stats["worst_additivity_error"] = max(stats["worst_additivity_error"], err)
                    if not (err <= 1e-9):
                        # is it the selection (model) or the additivity (property) that fails?  try every subset
                        key = "additivity:%s:%s" % (kind, name)
                        ck.obligation_broken("correspondence postint: selection state after a sequence differs from Model/PostInt.lean (or the integral is not additive)",
                                             dict(sequence=seq, model_selected=[l for l in range(nl) if sel[l]], quantity=name, got=got, expected=want))
                        ck.violation(key, "%s integral after the selection sequence %s is %s, the sum over the selected labels %s is %s"
                                     % (name, seq, got, [l for l in range(nl) if sel[l]], want), dict(files=run.files(), sequence=seq, physics=kind))
                        break
            # ---- stage B (electrostatics): the integrals themselves vs the integrand model Model/PostIntE.lean summed over the elements of
            # the solution file in mesh order, for the selection each sequence leaves (elements outside external regions)
            if kind == "e" and states and not any(l_.get("ext") for l_ in p.labels):
                LC = dict(inches=0.0254, millimeters=0.001, centimeters=0.01, meters=1.0, mils=2.54e-05, microns=1.e-06)[p.units]
                sol_ = femmio.read_solution(run.solution_path(), "e")
                req = ["consts %d %s %s %s %s" % (1 if axi else 0, d2tok(p.depth * LC), d2tok(math.pi), d2tok(LC), d2tok(8.85418781762e-12))]
                req += ["mat %s %s" % (d2tok(b_.get("ex", 1.0)), d2tok(b_.get("ey", 1.0))) for b_ in p.blockprops]
                req += ["lab %d" % l_["block"] for l_ in p.labels]
                req += ["n %s %s %s" % (d2tok(n_[0]), d2tok(n_[1]), d2tok(n_[2])) for n_ in sol_["nodes"]]
                req += ["e %d %d %d %d" % (int(e_[0]), int(e_[1]), int(e_[2]), int(e_[3])) for e_ in sol_["elements"]]
                asked = []
                for q in range(min(len(seqs), len(states))):
                    for name in ("area", "volume", "energy"):
                        req.append("int %d %s" % (types[name], states[q]))
                        asked.append((q, name))
                repm, _, _ = vlib.run_lines([mx, "postint-e"], req, timeout=900)
                for (q, name), rm in zip(asked, repm):
                    got = out.get("S%d_%s" % (q, name), [None])[0]
                    if got is None or not rm.startswith("x"):
                        continue
                    got = got.real if isinstance(got, complex) else got
                    mv = tok2d(rm)
                    stats["model_integrals_compared"] = stats.get("model_integrals_compared", 0) + 1
                    sc = max(abs(mv), abs(got), 1e-300)
                    # femmcli prints 16-17 significant digits
                    if abs(got - mv) > 4e-15 * sc and abs(got - mv) > 1e-15 * max(sum(abs(v) for v in per[name] if v is not None), 1e-300):
                        ck.obligation_broken("correspondence postint-e: %s integral of the real post-processor vs Model/PostIntE.lean summed in mesh order" % name,
                                             dict(sequence=seqs[q], impl=got, model=mv, files=run.files()))
                        break
            # ---- stage B (heat flow): area, volume and the averages (temperature, gradient, flux density) vs Model/PostIntH.lean
            if kind == "h" and states and not any(l_.get("ext") for l_ in p.labels):
                LC = dict(inches=0.0254, millimeters=0.001, centimeters=0.01, meters=1.0, mils=2.54e-05, microns=1.e-06)[p.units]
                sol_ = femmio.read_solution(run.solution_path(), "h")
                req = ["consts %d %s %s %s" % (1 if axi else 0, d2tok(p.depth * LC), d2tok(math.pi), d2tok(LC))]
                for b_ in p.blockprops:
                    req.append("mat %s %s" % (d2tok(b_.get("Kx", 1.0)), d2tok(b_.get("Ky", 1.0))) + "".join(" %s %s" % (d2tok(T_), d2tok(k_)) for (T_, k_) in b_.get("TK", [])))
                req += ["lab %d" % l_["block"] for l_ in p.labels]
                req += ["n %s %s %s" % (d2tok(n_[0]), d2tok(n_[1]), d2tok(n_[2])) for n_ in sol_["nodes"]]
                req += ["e %d %d %d %d" % (int(e_[0]), int(e_[1]), int(e_[2]), int(e_[3])) for e_ in sol_["elements"]]
                asked = []
                alltypes = dict(types, **AVERAGES["h"])
                for q in range(min(len(seqs), len(states))):
                    for name in ("area", "volume", "avgT", "avgF", "avgG"):
                        req.append("int %d %s" % (alltypes[name], states[q]))
                        asked.append((q, name))
                repm, _, _ = vlib.run_lines([mx, "postint-h"], req, timeout=900)
                for (q, name), rm in zip(asked, repm):
                    gv = out.get("S%d_%s" % (q, name), [None, None])
                    tk_ = rm.split()
                    if gv[0] is None or len(tk_) != 2 or not tk_[0].startswith("x"):
                        continue
                    # ho_blockintegral returns the real and the imaginary part (x and y component of a vector average)
                    got = complex(complex(gv[0]).real, complex(gv[1]).real if len(gv) > 1 and gv[1] is not None else 0.0)
                    mv = complex(tok2d(tk_[0]), tok2d(tk_[1]))
                    stats["model_integrals_compared"] = stats.get("model_integrals_compared", 0) + 1
                    sc = max(abs(mv), abs(got), 1e-300)
                    if abs(got - mv) > 4e-15 * sc:
                        ck.obligation_broken("correspondence postint-h: %s of the real heat post-processor vs Model/PostIntH.lean summed in mesh order" % name,
                                             dict(sequence=seqs[q], impl=[got.real, got.imag], model=[mv.real, mv.imag], files=run.files()))
                        break
            # ---- stage B (planar magnetostatics): A.J, int A, energy, coenergy, area, current, int B, volume vs Model/PostIntM.lean
            if kind == "m" and not harm and not axi and states and not any(m_.get("LamType", 0) > 2 or m_.get("H_c") or m_.get("BH") for m_ in p.blockprops):
                LC = dict(inches=0.0254, millimeters=0.001, centimeters=0.01, meters=1.0, mils=2.54e-05, microns=1.e-06)[p.units]
                sol_ = femmio.read_solution(run.solution_path(), "m")
                rest_ = [l_.split() for l_ in sol_["rest"] if l_.strip()]
                nlab_ = int(rest_[0][0])
                recs_ = [(int(r_[0]), float(r_[1])) for r_ in rest_[1:1 + nlab_]]
                req = ["consts %s %s %s %s" % (d2tok(p.depth * LC), d2tok(LC), d2tok(1.2566370614359173e-6), d2tok(1.e06))]
                for b_ in p.blockprops:
                    req.append("mat %s %s %d %s %s %s %s" % (d2tok(b_.get("Mu_x", 1.0)), d2tok(b_.get("Mu_y", 1.0)), b_.get("LamType", 0), d2tok(b_.get("LamFill", 1.0)),
                                                             d2tok(b_.get("d_lam", 0.0)), d2tok(b_.get("J_re", 0.0)), d2tok(b_.get("Sigma", 0.0))))
                for li_, l_ in enumerate(p.labels):
                    cs_, val_ = recs_[li_] if li_ < len(recs_) else (1, 0.0)
                    req.append("lab %d %d %d %d %s" % (l_["block"], 1 if l_["circ"] >= 0 else 0, 1 if abs(l_["turns"]) > 1 else 0, cs_, d2tok(val_)))
                req += ["n %s %s %s" % (d2tok(n_[0]), d2tok(n_[1]), d2tok(n_[2])) for n_ in sol_["nodes"]]
                req += ["e %d %d %d %d" % (int(e_[0]), int(e_[1]), int(e_[2]), int(e_[3])) for e_ in sol_["elements"]]
                asked = []
                mtypes = dict(types, intA=1, intBx=8, intBy=9)
                for q in range(min(len(seqs), len(states))):
                    for name in ("AJ", "intA", "energy", "coenergy", "area", "current", "intBx", "intBy", "volume"):
                        req.append("int %d %s" % (mtypes[name], states[q]))
                        asked.append((q, name))
                repm, _, _ = vlib.run_lines([mx, "postint-m"], req, timeout=900)
                for (q, name), rm in zip(asked, repm):
                    gv = out.get("S%d_%s" % (q, name), [None])
                    tk_ = rm.split()
                    if gv[0] is None or len(tk_) != 2 or not tk_[0].startswith("x"):
                        continue
                    got = complex(gv[0])
                    mv = complex(tok2d(tk_[0]), tok2d(tk_[1]))
                    stats["model_integrals_compared"] = stats.get("model_integrals_compared", 0) + 1
                    # integrals of signed quantities are compared against the sum of the magnitudes of the per-label values
                    sc = max(abs(mv), abs(got), sum(abs(v_) for v_ in per.get(name, []) if v_ is not None) if name in per else 0.0, 1e-300)
                    if not (abs(got - mv) <= 4e-15 * sc):
                        ck.obligation_broken("correspondence postint-m: %s of the real magnetics post-processor vs Model/PostIntM.lean summed in mesh order" % name,
                                             dict(sequence=seqs[q], impl=[got.real, got.imag], model=[mv.real, mv.imag], files=run.files()))
                        break
            # ---- geometry
            u = UNIT_M[p.units]
            for l in range(nl):
                reg = [r for r in p.regions if r["label"] == l]
                if not reg or per["area"][l] is None:
                    continue
                a = region_area(reg[0]) * u * u
                v = region_volume_axi(reg[0]) * u ** 3 if axi else a * p.depth * u
                ea = abs(per["area"][l] - a) / a
                ev = abs(per["volume"][l] - v) / v
                stats["worst_geometry_error"] = max(stats["worst_geometry_error"], ea, ev)
                if ea > 1e-9:
                    ck.violation("area:%s" % kind, "block area of label %d is %.12g m^2, the drawn region has %.12g m^2" % (l, per["area"][l], a), dict(files=run.files(), label=l))
                if ev > 1e-9:
                    ck.violation("volume:%s:%s" % (kind, "axi" if axi else "planar"), "block volume of label %d is %.12g m^3, the drawn region gives %.12g m^3 (%s)"
                                 % (l, per["volume"][l], v, p.ptype), dict(files=run.files(), label=l))
            for i, (a, b) in enumerate(sides):
                c = out.get("C%d" % i)
                if c and c[0] is not None:
                    stats["contours"] += 1
                    L = math.hypot(b[0] - a[0], b[1] - a[1]) * u
                    if abs(c[0] - L) > 1e-9 * L:
                        ck.violation("contour-length:%s" % kind, "contour along a drawn side: length %.12g m, drawn %.12g m" % (c[0], L), dict(files=run.files(), side=i))
            # ---- energy identities
            if kind == "e":
                W_all = sum(v for v in per["energy"] if v is not None)
                half = 0.0
                okq = True
                for c in p.circprops:
                    tq = out.get("T_" + c["name"])
                    if not tq or tq[0] is None or tq[1] is None:
                        okq = False
                        break
                    half += 0.5 * tq[0] * tq[1]
                if okq and W_all > 0:
                    err = abs(W_all - half) / W_all
                    stats["worst_energy_identity_error"] = max(stats["worst_energy_identity_error"], err)
                    if err > 1e-6:
                        ck.violation("energy-vs-terminals:e", "stored energy %.9g J, half the sum of conductor voltage x charge %.9g J (%s)" % (W_all, half, p.ptype),
                                     dict(files=run.files()))
            if kind == "m" and not harm:
                W_all = sum(v.real if isinstance(v, complex) else v for v in per["energy"] if v is not None)
                AJ = sum(v.real if isinstance(v, complex) else v for v in per["AJ"] if v is not None)
                Wc = sum(v.real if isinstance(v, complex) else v for v in per["coenergy"] if v is not None)
                # the same energy through the terminals: W = 1/2 sum over circuits of current x flux linkage, when only circuits excite
                if W_all > 0 and p.circprops and not any(m.get("J_re") for m in p.blockprops):
                    half = 0.0
                    okq = True
                    for ci_, c in enumerate(p.circprops):
                        if not any(l_["circ"] == ci_ for l_ in p.labels):
                            continue        # a circuit no region belongs to has no flux linkage
                        tq = out.get("T_" + c["name"])
                        if not tq or len(tq) < 3 or tq[0] is None or tq[2] is None:
                            okq = False
                            break
                        half += 0.5 * (tq[0].real if isinstance(tq[0], complex) else tq[0]) * (tq[2].real if isinstance(tq[2], complex) else tq[2])
                    if not okq:
                        ck.violation("terminal-missing:m", "mo_getcircuitproperties returned no numbers: %r" % {c["name"]: out.get("T_" + c["name"]) for c in p.circprops}, dict(files=run.files()))
                    else:
                        errT = abs(W_all - half) / W_all
                        stats["worst_energy_vs_linkage_error"] = max(stats.get("worst_energy_vs_linkage_error", 0.0), errT)
                        stats["energy_vs_linkage_checked"] = stats.get("energy_vs_linkage_checked", 0) + 1
                        if not (errT <= 1e-6):
                            ck.violation("energy-vs-AJ:m:axi:mesh-level" if (axi and axi_mesh_level(build, work, "p%d_T" % t, p, errT, 1)) else "energy-vs-linkage:m:%s" % ("axi" if axi else "planar"),
                                         "stored energy %.9g J, half the sum of circuit current x flux linkage %.9g J (%s)" % (W_all, half, p.ptype), dict(files=run.files()))
                if W_all > 0:
                    err = max(abs(W_all - 0.5 * AJ), abs(W_all - Wc)) / W_all
                    stats["worst_energy_identity_error"] = max(stats["worst_energy_identity_error"], err)
                    if err > 1e-6:
                        # axisymmetric magnetics: the energy and A.J integrals use different quadratures of the modified
                        # potential; they agree to mesh accuracy only (same finding class as C11's axisymmetric reciprocity)
                        ck.violation("energy-vs-AJ:m:axi:mesh-level" if (axi and abs(W_all - Wc) <= 1e-6 * W_all and axi_mesh_level(build, work, "p%d_A" % t, p, err, 0)) else "energy-vs-AJ:m:%s" % ("axi" if axi else "planar"), "stored energy %.9g J, half of int A.J %.9g J, coenergy %.9g J (%s)" % (W_all, 0.5 * AJ, Wc, p.ptype),
                                     dict(files=run.files()))
        # ================= contours that follow drawn ARCS (xo_selectpoint walks along the drawn entity nearest to the pick): a circle drawn as
        # two half circles between the same two points, walked counter-clockwise and clockwise, from either point - the length of the closed
        # contour is the circumference (of the polygon of chords the contour is made of: each arc by chords of its maximum segment angle)
        for t, kind in enumerate("ehm"):
            p = gen.gen_disc(kind, rng)
            p.precision = 1e-8
            run = Run(build, work, "arcc%d" % t, p)
            ck.case(("arc-contour", kind), nontrivial=True)
            if run.mesh() != 0 or run.solve() != 0:
                ck.violation("tool-failed:" + kind, "mesher / solver failed on the box-with-circle problem: " + (run.mesh_out + run.solve_out)[-300:], dict(files=run.files()))
                continue
            a_ = p.arcs[0]
            n0, n1 = p.nodes[a_["n0"]], p.nodes[a_["n1"]]
            cx, cy = (n0["x"] + n1["x"]) / 2, (n0["y"] + n1["y"]) / 2
            r = abs(n1["x"] - n0["x"]) / 2
            dl = 0.2 * r
            P0, P1 = (n0["x"], n0["y"]), (n1["x"], n1["y"])       # left and right end of the horizontal diameter; arc 0 is the lower half (n0 -> n1)
            walks = dict(ccw0=[P0, (P1[0] - dl, P1[1] - dl), (P0[0] + dl, P0[1] + dl)], cw0=[P0, (P1[0] - dl, P1[1] + dl), (P0[0] + dl, P0[1] - dl)],
                         ccw1=[P1, (P0[0] + dl, P0[1] + dl), (P1[0] - dl, P1[1] - dl)], cw1=[P1, (P0[0] + dl, P0[1] - dl), (P1[0] - dl, P1[1] + dl)])
            s = lua_post.Session(kind, "p" + femmio.EXT[kind], analyze=False)
            pre_ = kind + "o_"
            for name, pts in walks.items():
                s.raw("%sclearcontour()" % pre_)
                for (x, y) in pts:
                    s.raw("%sselectpoint(%.17g,%.17g)" % (pre_, x, y))
                s.line_integral("L_" + name, 2)
            rc, out, raw = s.run(build, run.dir, timeout=600)
            u = UNIT_M[p.units]
            k_ = int(math.ceil(180.0 / a_["maxseg"] - 1e-9))          # the contour follows each half circle by the chords of its own maximum segment angle
            want = 2 * k_ * 2 * r * math.sin(math.pi / (2 * k_)) * u
            for name in walks:
                c = out.get("L_" + name)
                stats["arc_contours"] = stats.get("arc_contours", 0) + 1
                if rc != 0 or not c or c[0] is None or abs(c[0] - want) > 1e-6 * want:
                    ck.violation("contour-length:arc:%s" % kind, "closed contour along the two half circles of a drawn circle of radius %g (%s, walk %s): length %r m, the circumference is %.9g m "
                                 "(2 pi r = %.9g m)" % (r, p.units, name, c[0] if c else None, want, 2 * math.pi * r * u), dict(files=run.files(), walk=walks[name]))
                    break
    finally:
        shutil.rmtree(work, ignore_errors=True)
    ck.notes["input_distribution"] = stats
    return ck.finish()
