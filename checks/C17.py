"""C17 — a model built by Lua commands equals the same model read from a file, end to end.

stage A: translator tools/translate_lua.py (every addFunction registration; argument -> member map of the twelve
         add-property handlers) + tools/translate_filekeys.py (member -> file key); Properties/C17.lean: every argument of
         every add-property command lands in the saved file under its documented key; both spellings registered with the same
         handler; every documented model-building command registered for every physics
stage P: generated problems of the three physics expressed as command sequences (random spelling per command, two or three
         problems built and analysed one after another in the same script): the file saved by xi_saveas has the same meaning
         as the problem written directly in the file format (independent reader); xi_analyze + xi_loadsolution + xo_ queries
         from the script give the same mesh, solution and values as the stand-alone mesher / solver / post-processing of the
         file; values come back in the documented order
"""
import math, os, re, shutil, subprocess, sys
sys.path.insert(0, os.path.join(os.path.dirname(os.path.dirname(os.path.abspath(__file__))), "harness", "py"))
from tools import vlib, translate_lua, translate_filekeys
import femmio, gen, lua_post
from runner import Run
from checks.C14 import diff_problems, files_of

DOCTYPE = {"m": 0, "e": 1, "h": 2}
LUA_UNITS = {"inches": "inches", "millimeters": "millimeters", "centimeters": "centimeters", "meters": "meters", "mils": "mils", "microns": "micrometers"}


def q(s):
    return '"' + s.replace("\\", "\\\\").replace('"', '\\"') + '"'


def n17(x):
    return "%.17g" % x


class Script:
    def __init__(self, rng, spellings):
        self.rng = rng
        self.sp = spellings
        self.lines = []
        self.used = {}

    def cmd(self, name, *args):
        alts = self.sp.get(name, [name])
        nm = self.rng.choice(alts)
        self.used[nm] = self.used.get(nm, 0) + 1
        self.lines.append("%s(%s)" % (nm, ",".join(args)))

    def raw(self, l):
        self.lines.append(l)


def arc_mid(p, a):
    n0, n1 = p.nodes[a["n0"]], p.nodes[a["n1"]]
    x0, y0, x1, y1 = n0["x"], n0["y"], n1["x"], n1["y"]
    th = math.radians(a["angle"])
    d = math.hypot(x1 - x0, y1 - y0)
    R = d / (2 * math.sin(th / 2))
    mx, my = (x0 + x1) / 2, (y0 + y1) / 2
    h = R * math.cos(th / 2)
    # centre is to the left of the chord n0->n1 (counter-clockwise arc)
    ux, uy = -(y1 - y0) / d, (x1 - x0) / d
    cx, cy = mx + ux * h, my + uy * h
    # midpoint of the arc: from the centre through the chord midpoint, on the far side
    vx, vy = mx - cx, my - cy
    l = math.hypot(vx, vy)
    if l < 1e-12 * R:
        vx, vy, l = -ux, -uy, 1.0
    return cx + vx / l * R, cy + vy / l * R


def build(sc, p, fname):
    k = p.kind
    pre = k + "i_"
    sc.cmd("newdocument", str(DOCTYPE[k]))
    units = LUA_UNITS[p.units]
    typ = "planar" if p.ptype == "planar" else "axi"
    if k == "m":
        sc.cmd(pre + "probdef", n17(p.freq), q(units), q(typ), n17(p.precision), n17(p.depth), n17(p.minangle), str(p.acsolver))
    elif k == "e":
        sc.cmd(pre + "probdef", q(units), q(typ), n17(p.precision), n17(p.depth), n17(p.minangle))
    else:
        sc.cmd(pre + "probdef", q(units), q(typ), n17(p.precision), n17(p.depth), n17(p.minangle), q(p.prevsoln), n17(p.dt))
    for d in p.pointprops:
        if k == "m":
            sc.cmd(pre + "addpointprop", q(d["name"]), n17(d.get("A_re", 0.0)), n17(d.get("I_re", 0.0)))
        else:
            sc.cmd(pre + "addpointprop", q(d["name"]), n17(d.get("V", 0.0)), n17(d.get("q", 0.0)))
    for d in p.bdryprops:
        if k == "m":
            sc.cmd(pre + "addboundprop", q(d["name"]), *[n17(d.get(x, 0.0)) for x in ("A_0", "A_1", "A_2", "Phi", "Mu_ssd", "Sigma_ssd", "c0", "c1")], str(d["type"]))
        elif k == "e":
            sc.cmd(pre + "addboundprop", q(d["name"]), *[n17(d.get(x, 0.0)) for x in ("Vs", "qs", "c0", "c1")], str(d["type"]))
        else:
            sc.cmd(pre + "addboundprop", q(d["name"]), str(d["type"]), *[n17(d.get(x, 0.0)) for x in ("Tset", "qs", "Tinf", "h", "beta")])
    for d in p.blockprops:
        # every other material is entered with other values and then corrected value by value with xi_modifymaterial(name, propnum, value),
        # in a shuffled order (so that a property number that also writes a neighbouring member is overwritten by - or overwrites - it)
        build.mats = getattr(build, "mats", 0) + 1
        if build.mats % 2 == 0:
            fields = {"m": [("Mu_x", 1.0), ("Mu_y", 1.0), ("H_c", 0.0), ("J_re", 0.0), ("Sigma", 0.0), ("d_lam", 0.0), ("Phi_h", 0.0), ("LamFill", 1.0),
                            ("LamType", 0), ("Phi_hx", 0.0), ("Phi_hy", 0.0), ("NStrands", 0), ("WireD", 0.0)],
                      "e": [("ex", 1.0), ("ey", 1.0), ("qv", 0.0)], "h": [("Kx", 1.0), ("Ky", 1.0), ("qv", 0.0), ("Kt", 0.0)]}[k]
            true_ = [d.get(f_, dflt) for (f_, dflt) in fields]
            decoy = []
            for (f_, dflt), v_ in zip(fields, true_):
                if f_ == "LamType":
                    decoy.append(0 if v_ != 0 else 1)
                elif f_ == "NStrands":
                    decoy.append(int(v_) + 2)
                elif f_ == "LamFill":
                    decoy.append(0.75 if v_ == 1.0 else 1.0)
                else:
                    decoy.append(v_ * 2.0 + 1.0)
            sc.cmd(pre + "addmaterial", q(d["name"]), *[str(x) if isinstance(x, int) else n17(x) for x in decoy])
            order_ = list(range(len(fields)))
            sc.rng.shuffle(order_)
            for i_ in order_:
                sc.cmd(pre + "modifymaterial", q(d["name"]), str(i_ + 1), str(true_[i_]) if isinstance(true_[i_], int) else n17(true_[i_]))
            if k == "m":
                for (B, H) in sc.rng.sample(d.get("BH", []), len(d.get("BH", []))):
                    sc.cmd(pre + "addbhpoint", q(d["name"]), n17(B), n17(H))
            elif k == "h":
                for (T, K) in d.get("TK", []):
                    sc.cmd(pre + "addtkpoint", q(d["name"]), n17(T), n17(K))
            continue
        if k == "m":
            sc.cmd(pre + "addmaterial", q(d["name"]), n17(d.get("Mu_x", 1.0)), n17(d.get("Mu_y", 1.0)), n17(d.get("H_c", 0.0)), n17(d.get("J_re", 0.0)),
                   n17(d.get("Sigma", 0.0)), n17(d.get("d_lam", 0.0)), n17(d.get("Phi_h", 0.0)), n17(d.get("LamFill", 1.0)), str(d.get("LamType", 0)),
                   n17(d.get("Phi_hx", 0.0)), n17(d.get("Phi_hy", 0.0)), str(d.get("NStrands", 0)), n17(d.get("WireD", 0.0)))
            # points of a table may be given in any order (the command keeps the table sorted)
            for (B, H) in sc.rng.sample(d.get("BH", []), len(d.get("BH", []))):
                sc.cmd(pre + "addbhpoint", q(d["name"]), n17(B), n17(H))
        elif k == "e":
            sc.cmd(pre + "addmaterial", q(d["name"]), n17(d.get("ex", 1.0)), n17(d.get("ey", 1.0)), n17(d.get("qv", 0.0)))
        else:
            sc.cmd(pre + "addmaterial", q(d["name"]), n17(d.get("Kx", 1.0)), n17(d.get("Ky", 1.0)), n17(d.get("qv", 0.0)), n17(d.get("Kt", 0.0)))
            # T-k points are given in ascending order: hi_addtkpoint appends (FEMM's own handler does the same), only mi_addbhpoint sorts
            for (T, K) in d.get("TK", []):
                sc.cmd(pre + "addtkpoint", q(d["name"]), n17(T), n17(K))
    for d in p.circprops:
        if k == "m":
            sc.cmd(pre + "addcircprop", q(d["name"]), n17(d.get("I_re", 0.0)), str(d.get("type", 1)))
        else:
            sc.cmd(pre + "addconductorprop", q(d["name"]), n17(d.get("V", 0.0)), n17(d.get("q", 0.0)), str(d.get("type", 1)))
    # geometry
    for nd in p.nodes:
        sc.cmd(pre + "addnode", n17(nd["x"]), n17(nd["y"]))
    for s in p.segs:
        a, b = p.nodes[s["n0"]], p.nodes[s["n1"]]
        sc.cmd(pre + "addsegment", n17(a["x"]), n17(a["y"]), n17(b["x"]), n17(b["y"]))
    for a_ in p.arcs:
        a, b = p.nodes[a_["n0"]], p.nodes[a_["n1"]]
        sc.cmd(pre + "addarc", n17(a["x"]), n17(a["y"]), n17(b["x"]), n17(b["y"]), n17(a_["angle"]), n17(a_["maxseg"]))
    for lb in p.labels:
        sc.cmd(pre + "addblocklabel", n17(lb["x"]), n17(lb["y"]))
    for h in p.holes:
        sc.cmd(pre + "addblocklabel", n17(h["x"]), n17(h["y"]))
    # attributes
    name_of = lambda lst, i: q(lst[i]["name"]) if i >= 0 else q("<None>")
    for nd in p.nodes:
        if nd["bc"] >= 0 or nd["group"] or nd.get("cond", -1) >= 0:
            sc.cmd(pre + "selectnode", n17(nd["x"]), n17(nd["y"]))
            if k == "m":
                sc.cmd(pre + "setnodeprop", name_of(p.pointprops, nd["bc"]), str(nd["group"]))
            else:
                sc.cmd(pre + "setnodeprop", name_of(p.pointprops, nd["bc"]), str(nd["group"]), name_of(p.circprops, nd["cond"]))
            sc.cmd(pre + "clearselected")
    for s in p.segs:
        if s["bc"] >= 0 or s["group"] or s["hidden"] or s["maxside"] > 0 or s.get("cond", -1) >= 0:
            a, b = p.nodes[s["n0"]], p.nodes[s["n1"]]
            sc.cmd(pre + "selectsegment", n17((a["x"] + b["x"]) / 2), n17((a["y"] + b["y"]) / 2))
            auto = "1" if s["maxside"] <= 0 else "0"
            args = [name_of(p.bdryprops, s["bc"]), n17(max(s["maxside"], 0.0)), auto, str(s["hidden"]), str(s["group"])]
            if k != "m":
                args.append(name_of(p.circprops, s["cond"]))
            sc.cmd(pre + "setsegmentprop", *args)
            sc.cmd(pre + "clearselected")
    for a_ in p.arcs:
        if a_["bc"] >= 0 or a_["group"] or a_["hidden"] or a_.get("cond", -1) >= 0:
            mx, my = arc_mid(p, a_)
            sc.cmd(pre + "selectarcsegment", n17(mx), n17(my))
            args = [n17(a_["maxseg"]), name_of(p.bdryprops, a_["bc"]), str(a_["hidden"]), str(a_["group"])]
            if k != "m":
                args.append(name_of(p.circprops, a_["cond"]))
            sc.cmd(pre + "setarcsegmentprop", *args)
            sc.cmd(pre + "clearselected")
    for lb in p.labels:
        sc.cmd(pre + "selectlabel", n17(lb["x"]), n17(lb["y"]))
        auto = "1" if lb["meshsize"] <= 0 else "0"
        if k == "m":
            sc.cmd(pre + "setblockprop", name_of(p.blockprops, lb["block"]), auto, n17(max(lb["meshsize"], 0.0)), name_of(p.circprops, lb["circ"]),
                   n17(lb["magdir"]), str(lb["group"]), str(lb["turns"]))
        else:
            sc.cmd(pre + "setblockprop", name_of(p.blockprops, lb["block"]), auto, n17(max(lb["meshsize"], 0.0)), str(lb["group"]))
        sc.cmd(pre + "clearselected")
    for h in p.holes:
        sc.cmd(pre + "selectlabel", n17(h["x"]), n17(h["y"]))
        if k == "m":
            sc.cmd(pre + "setblockprop", q("<No Mesh>"), "1", "0", q("<None>"), "0", str(h["group"]), "1")
        else:
            sc.cmd(pre + "setblockprop", q("<No Mesh>"), "1", "0", str(h["group"]))
        sc.cmd(pre + "clearselected")
    sc.cmd(pre + "saveas", q(fname))


def spellings_from_source(root):
    """{squeezed name: [all registered spellings]}"""
    d = os.path.join(root, "cfemm", "femmcli")
    names = set()
    for f, _ in translate_lua.FILES:
        src = translate_lua.strip_comments(open(os.path.join(d, f), errors="replace").read())
        names |= set(re.findall(r'addFunction\(\s*"([^"]+)"', src))
    sp = {}
    for n in names:
        sp.setdefault(translate_lua.squeeze(n), []).append(n)
    return {k: sorted(v) for k, v in sp.items()}


def main(argv):
    ck = vlib.Check("C17", "proof", argv)
    ck.cov["rule"] = ("generated problems (rectangle and disc families, planar / axisymmetric, three physics; point, boundary, material, circuit / conductor "
                      "properties, B-H and T-k tables, arcs with boundary conditions and conductors, groups, mesh sizes) written both as a file and as a "
                      "Lua command sequence with a random registered spelling per command; scripts build and analyse 2-3 problems in a row")
    ck.assumptions += ["axisymmetric magnetics problems are not declared in micrometres (known finding of C10: the solver produces NaN there by either route)",
                       "Lua-built problems use smart meshing (there is no Lua command for the switch), so the file twin says [DoSmartMesh] = 1",
                       "values are compared at 1e-9 relative (both routes run the same binaries on files that are equal in meaning)"]
    for mod, gen_name, what in ((translate_lua, "LuaCmds.lean", "lua"), (translate_filekeys, "FileKeys.lean", "filekeys")):
        try:
            text = mod.generate(vlib.REPO)
            with vlib.LeanLock():
                vlib.write_if_changed(os.path.join(vlib.LEAN, "XfemmVerif", "Generated", gen_name), text)
        except (translate_lua.TranslateError, translate_filekeys.TranslateError) as e:
            ck.obligation_broken("translator %s: pattern no longer matches the source: %s" % (what, e))
    ck.run_stage_a()
    build_dir = vlib.build_repo("plain")
    rng = ck.rng
    sp = spellings_from_source(vlib.REPO)
    stats = dict(scripts=0, problems=0, by_kind={}, commands_used=0, spellings_used=0, arcs_with_props=0, tables=0, analysed=0, worst_solution_diff=0.0,
                 worst_value_diff=0.0)
    work = vlib.workdir("C17")
    nscripts = 5 if ck.tier == "quick" else 60
    nviol = 0
    used_all = {}
    try:
        for t in range(nscripts):
            d = os.path.join(work, "s%d" % t)
            os.makedirs(d)
            sc = Script(rng, sp)
            probs = []
            for j in range(rng.choice([2, 3])):
                kind = "mhe"[(t + j) % 3]
                p = gen.gen_any(kind, rng) if (t + j) % 4 else gen.gen_disc(kind, rng)
                p.smartmesh = 1
                p.forcemaxmesh = None
                p.precision = 1e-10
                p.comment = ""
                if (t + j) % 5 == 1:
                    p.ptype = "axi" if getattr(p, "family", "") == "rects" else p.ptype
                if kind == "m":
                    p.freq = 0.0
                    # most planar magnetics problems are time-harmonic (linear materials): the double-frequency force / torque
                    # integrals and the complex circuit values only exist there
                    harmonic_m = p.ptype == "planar" and rng.random() < 0.6
                    if getattr(p, "family", "") == "disc" and p.ptype == "planar":
                        # a conducting iron disc carrying current in an air box with a prescribed gradient field: the body is surrounded by free
                        # space, so the weighted-stress-tensor force and torque integrals (incl. their double-frequency parts) are defined and non-zero
                        harmonic_m = True
                        p.blockprops[0].update(Mu_x=1.0, Mu_y=1.0, J_re=0.0, Sigma=0.0)
                        p.blockprops[1].update(Mu_x=rng.choice([50.0, 200.0]), J_re=rng.choice([1.0, -2.0]), Sigma=rng.choice([1.0, 5.0]))
                        p.blockprops[1]["Mu_y"] = p.blockprops[1]["Mu_x"]
                        p.bdryprops[0].update(A_0=0.0, A_1=rng.choice([1e-3, 2e-3]), A_2=rng.choice([0.0, -1e-3]))
                        stats["free_bodies"] = stats.get("free_bodies", 0) + 1
                    if harmonic_m:
                        p.freq = rng.choice([60.0, 400.0])
                        stats["harmonic_magnetics"] = stats.get("harmonic_magnetics", 0) + 1
                        for m in p.blockprops:       # what a time-harmonic analysis accepts: no magnets, no on-edge laminations
                            m.pop("H_c", None); m.pop("LamType", None); m.pop("LamFill", None)
                    if p.ptype != "planar" and p.units == "microns":
                        p.units = "millimeters"       # axisymmetric magnetics in micrometres: known finding of C10 (NaN potentials), not a Lua matter
                    for m in p.blockprops:
                        # wire data (only used by the wire lamination types, but part of the material the commands describe)
                        m.setdefault("WireD", rng.choice([0.0, 0.25, 1.2]))
                        m.setdefault("NStrands", rng.choice([0, 7]))
                        m.setdefault("Phi_hx", m.get("Phi_h", 0.0))
                        m.setdefault("Phi_hy", m.get("Phi_h", 0.0))
                        if rng.random() < 0.25 and "BH" not in m and m.get("Mu_x", 1.0) > 1 and not harmonic_m:
                            mu = m["Mu_x"]
                            m["BH"] = [(0.0, 0.0)] + [(b, b / (4e-7 * math.pi * mu) * (1 + 0.2 * b * b)) for b in (0.25, 0.5, 1.0, 1.5, 2.0, 2.5)]
                if kind == "h" and rng.random() < 0.4:
                    m = rng.choice(p.blockprops)
                    m["TK"] = [(250.0, 1.0), (300.0, 1.4), (350.0, 2.0), (400.0, 2.2), (450.0, 2.5)]
                for lab in p.labels:
                    if lab["meshsize"] <= 0 and rng.random() < 0.7:
                        lab["meshsize"] = rng.choice([1.0, 1.5, 0.75])
                for s in p.segs:
                    if rng.random() < 0.1:
                        s["group"] = rng.randint(1, 5)
                stats["arcs_with_props"] += sum(1 for a in p.arcs if a["bc"] >= 0 or a.get("cond", -1) >= 0)
                stats["tables"] += sum(1 for m in p.blockprops if m.get("BH") or m.get("TK"))
                ext = femmio.EXT[kind]
                p.write(os.path.join(d, "f%d%s" % (j, ext)))
                build(sc, p, "l%d%s" % (j, ext))
                # analyse from the script and query
                pre, post = kind + "i_", kind + "o_"
                sc.cmd(pre + "analyze", "1")
                sc.cmd(pre + "loadsolution")
                pts = [(lb["x"], lb["y"]) for lb in p.labels[:3]]
                nret = {"e": 8, "h": 7, "m": 14}[kind]
                for i, (x, y) in enumerate(pts):
                    vs = ",".join("v%d" % a for a in range(nret))
                    alts = sp.get(post + "getpointvalues")
                    sc.raw("%s = %s(%s,%s)" % (vs, rng.choice(alts), n17(x), n17(y)))
                    sc.raw('print("@@P%d_%d"%s)' % (j, i, "".join(",tostring(v%d)" % a for a in range(nret))))
                sc.cmd(post + "groupselectblock")
                sc.raw("w0,w1 = %s(%d)" % (rng.choice(sp.get(post + "blockintegral")), {"m": 2, "e": 0, "h": 0}[kind]))
                sc.raw('print("@@W%d",tostring(w0),tostring(w1))' % j)
                if kind == "m" and p.ptype == "planar" and pts:
                    # a value returned by a query does not depend on what was asked before it: the weighted-stress-tensor force and
                    # torque integrals (18-23, which share a cached weighting mask) asked in a shuffled order, then once more in the
                    # reverse order after the selection was made anew
                    order = [18, 19, 20, 21, 22, 23]
                    rng.shuffle(order)
                    order.remove(23); order.insert(0, 23)       # the last of the family first: nothing before it has built the mask
                    for rnd, seq_ in (("a", order), ("b", list(reversed(order)))):
                        sc.cmd(post + "clearblock")
                        sc.cmd(post + "selectblock", n17(pts[0][0]), n17(pts[0][1]))
                        for T_ in seq_:
                            sc.raw("f0,f1 = %s(%d)" % (rng.choice(sp.get(post + "blockintegral")), T_))
                            sc.raw('print("@@F%d_%d%s",tostring(f0),tostring(f1))' % (j, T_, rnd))
                    stats["force_integral_orders"] = stats.get("force_integral_orders", 0) + 1
                for ci, c in enumerate(p.circprops[:2]):
                    if kind == "m":
                        sc.raw('c0,c1,c2 = %s(%s)' % (rng.choice(sp.get("mo_getcircuitproperties")), q(c["name"])))
                        sc.raw('print("@@C%d_%d",tostring(c0),tostring(c1),tostring(c2))' % (j, ci))
                    else:
                        sc.raw('c0,c1 = %s(%s)' % (rng.choice(sp.get(post + "getconductorproperties")), q(c["name"])))
                        sc.raw('print("@@C%d_%d",tostring(c0),tostring(c1))' % (j, ci))
                sc.cmd(post + "close")
                sc.cmd(pre + "close")
                probs.append((kind, p, pts))
            open(os.path.join(d, "s.lua"), "w").write("\n".join(sc.lines) + "\n")
            stats["scripts"] += 1
            for kname, v in sc.used.items():
                used_all[kname] = used_all.get(kname, 0) + v
            try:
                r = subprocess.run([os.path.join(build_dir, "cfemm", "bin", "femmcli"), "--lua-script=s.lua"], cwd=d, stdout=subprocess.PIPE,
                                   stderr=subprocess.STDOUT, text=True, timeout=900, errors="replace")
                rc, out = r.returncode, r.stdout
            except subprocess.TimeoutExpired:
                rc, out = -999, "timeout"
            vals = {}
            for l in out.splitlines():
                if "@@" in l:        # a progress message of the solver may precede the tag on the same line
                    tk = l[l.index("@@") + 2:].split()
                    vals[tk[0]] = [lua_post.parse_number(x) for x in tk[1:]]
            if rc != 0:
                if nviol < 4:
                    nviol += 1
                    m = re.search(r"attempt to call global `(\w+)'", out)
                    key = "script-failed:" + (m.group(1) if m else "other")
                    ck.violation(key, "a script of documented commands building %s problems fails (rc=%s): %s"
                                 % ("+".join(k for k, _, _ in probs), rc, " ".join(out[-400:].split())), dict(files=files_of(d)))
                for k_, _, _ in probs:
                    ck.case((t, k_, "failed"), nontrivial=True)
                continue
            for j, (kind, p, pts) in enumerate(probs):
                ext = femmio.EXT[kind]
                stats["problems"] += 1
                stats["by_kind"][kind] = stats["by_kind"].get(kind, 0) + 1
                ck.case((t, j, kind, len(p.nodes), len(p.arcs)), nontrivial=True,
                        sample=dict(physics=kind, nodes=len(p.nodes), arcs=len(p.arcs), properties=len(p.bdryprops) + len(p.blockprops)) if t == 0 else None)
                A = femmio.read_problem(os.path.join(d, "f%d%s" % (j, ext)))
                B = femmio.read_problem(os.path.join(d, "l%d%s" % (j, ext)))
                # the 8th arc column of .fem files is the length the arc was last meshed with (display only)
                diffs = [x for x in diff_problems(A, B, kind) if x[0] != "[comment]" and not (kind == "m" and re.match(r"arcs row \d+ column 7", x[0]))]
                if diffs:
                    if nviol < 4:
                        nviol += 1
                        w, a, b = diffs[0]
                        ck.violation("lua-vs-file:%s:%s" % (kind, re.sub(r"\s+\d+\s*", ":", w).replace(" ", "-")),
                                     "%s problem built by Lua commands and saved: %s is %r, the same problem written as a file says %r (%d differences)"
                                     % (ext, w, b, a, len(diffs)), dict(files=files_of(d), differences=[(w, repr(x), repr(y)) for w, x, y in diffs[:20]]))
                    continue
                # stand-alone route on the hand-written file
                dd = os.path.join(d, "sa%d" % j)
                os.makedirs(dd)
                shutil.copy(os.path.join(d, "f%d%s" % (j, ext)), os.path.join(dd, "p" + ext))
                run = Run.__new__(Run)
                run.build, run.dir, run.prob, run.base, run.file = build_dir, dd, p, os.path.join(dd, "p"), os.path.join(dd, "p" + ext)
                run.mesh_out = run.solve_out = ""
                if run.mesh(timeout=300) != 0 or run.solve(timeout=600) != 0:
                    if nviol < 4:
                        nviol += 1
                        ck.violation("standalone-failed:" + kind, "the script analysed the Lua-built problem but the stand-alone mesher / solver fails on the file twin: %s"
                                     % (run.mesh_out + run.solve_out)[-300:], dict(files=files_of(d)))
                    continue
                stats["analysed"] += 1
                s0 = femmio.read_solution(run.solution_path(), kind)
                s1 = femmio.read_solution(os.path.join(d, "l%d%s" % (j, femmio.SOL[kind])), kind)
                # the same triangulation may come out with another numbering (the in-process mesher keeps Triangle's state between
                # problems): nodes are matched by their coordinates
                m0 = {(n[0], n[1]): n[2] for n in s0["nodes"]}
                m1 = {(n[0], n[1]): n[2] for n in s1["nodes"]}
                v0 = list(m0.values())
                v1 = list(m1.values())
                scl = max(abs(v) for v in v0) or 1.0
                dsol = max(abs(m0[k_] - m1[k_]) for k_ in m0) / scl if set(m0) == set(m1) else float("inf")
                stats["worst_solution_diff"] = max(stats["worst_solution_diff"], min(dsol, 1e300))
                # identical meshes, both routes stop at the same relative residual (1e-10): the potentials agree to the solver's accuracy
                if not (dsol <= 1e-7):
                    if nviol < 4:
                        nviol += 1
                        ck.violation("solution-differs:" + kind, "analysis from the script vs stand-alone tools on the same problem: %d vs %d nodes (matched by coordinates; inf = different node sets), potentials differ by %.3g"
                                     % (len(v1), len(v0), dsol), dict(files=files_of(d)))
                    continue
                # history independence of the force / torque integrals
                fscale = max([abs(v_[0]) for tg_, v_ in vals.items() if tg_.startswith("F%d_" % j) and v_ and v_[0] is not None] + [0.0])
                if vals.get("F%d_23b" % j) and vals["F%d_23b" % j][0]:
                    stats["nonzero_double_frequency_torques"] = stats.get("nonzero_double_frequency_torques", 0) + 1
                for T_ in (18, 19, 20, 21, 22, 23):
                    fa, fb = vals.get("F%d_%d%s" % (j, T_, "a")), vals.get("F%d_%d%s" % (j, T_, "b"))
                    if fa is None and fb is None:
                        continue
                    ok_ = fa is not None and fb is not None and fa[0] is not None and fb[0] is not None and abs(fa[0] - fb[0]) <= 1e-9 * fscale
                    if not ok_:
                        if nviol < 4:
                            nviol += 1
                            ck.violation("values-differ:m:order-of-queries", "mo_blockintegral(%d) on the same selection of the same solution returned %r when asked in one order "
                                         "and %r in another (largest force / torque integral %.3g)" % (T_, fa, fb, fscale), dict(files=files_of(d)))
                        break
                ses = lua_post.Session(kind, "p" + ext, analyze=False)
                for i, (x, y) in enumerate(pts):
                    ses.point("P%d_%d" % (j, i), x, y)
                ses.group_select()
                ses.block_integral("W%d" % j, {"m": 2, "e": 0, "h": 0}[kind])
                for ci, c in enumerate(p.circprops[:2]):
                    ses.conductor("C%d_%d" % (j, ci), c["name"])
                rc2, ref, raw2 = ses.run(build_dir, dd)
                for tag, rv in ref.items():
                    gv = vals.get(tag)
                    if gv is None or len(gv) < len(rv):
                        if nviol < 4:
                            nviol += 1
                            ck.violation("values-missing:" + kind, "query %s returned %r from the script, %r stand-alone" % (tag, gv, rv), dict(files=files_of(d)))
                        break
                    bad = False
                    # potentials, material data, integrals and conductor values are compared; fields (derivatives of a potential that is
                    # only converged to the solver's tolerance) are not
                    idx = {"P": [0] + ({"e": [5, 6], "h": [5, 6], "m": []}[kind]), "W": [0], "C": [0, 1, 2]}[tag[0]]
                    ref_scale = max([abs(x) for x in rv if x is not None] + [1e-300])
                    for ii in idx:
                        if ii >= len(rv):
                            continue
                        a, b = gv[ii], rv[ii]
                        if a is None or b is None:
                            bad = bad or (a is None) != (b is None)
                            continue
                        if tag[0] == "W" and abs(a) < 1e-18 and abs(b) < 1e-18:
                            continue        # an unexcited problem: the energy is rounding noise
                        # a potential is compared against the potential scale of the problem, not against its own (possibly tiny) value
                        dv = abs(a - b) / max(abs(b), 1e-9 * ref_scale, 1e-300) if not (tag[0] == "P" and ii == 0) else abs(a - b) / (scl * 100)
                        stats["worst_value_diff"] = max(stats["worst_value_diff"], dv)
                        if not (dv <= 1e-5):
                            bad = True
                    if bad:
                        if nviol < 4:
                            nviol += 1
                            ck.violation("values-differ:%s:%s" % (kind, tag[0]), "query %s: the script got %r, the stand-alone route %r" % (tag, gv, rv), dict(files=files_of(d)))
                        break
    finally:
        shutil.rmtree(work, ignore_errors=True)
    stats["commands_used"] = sum(used_all.values())
    stats["spellings_used"] = len(used_all)
    stats["underscore_spellings_used"] = sum(1 for k_ in used_all if "_" in k_[3:])
    ck.notes["input_distribution"] = stats
    return ck.finish()
