"""C03 — the electrostatic solution satisfies the discrete field equations and Gauss's law.

stage A: Properties/C03.lean (element matrix = Galerkin gradient form, symmetric, zero row sums; element gradient exact
         for affine fields; closed form of the elimination of prescribed nodes; exact accumulation via C09)
stage B: Model/ESolver.lean (statement-by-statement model of ESolver::AnalyzeProblem) at Float vs the system the REAL
         solver hands to PCGSolve (guarded hook dump), on the same loaded+renumbered mesh: entries, structure, rhs
stage P: independent SI-unit assembly (numpy) of the Galerkin equations from the drawn problem + the .res file the real
         esolver wrote: free-node residuals, prescribed values, floating conductors, reported charges; renumbering is a
         consistent permutation of the mesh; true solver residual from the hook log
"""
import os, shutil, subprocess, sys
sys.path.insert(0, os.path.join(os.path.dirname(os.path.dirname(os.path.abspath(__file__))), "harness", "py"))
import numpy as np
from tools import vlib
import femmio, gen, fem_oracle, cuthill_tie
from runner import Run

PROTO = ("consts", "problem", "np", "lp", "bp", "cp", "lab", "n", "e", "pbc", "run")


def parse_sys(lines):
    E, B, hdr = {}, {}, None
    for l in lines:
        t = l.split()
        if not t:
            continue
        if t[0] == "SYS":
            if hdr is not None:
                break
            hdr = l.strip()
        elif t[0] == "E":
            E[(int(t[1]), int(t[2]))] = t[3]
        elif t[0] == "B":
            B[int(t[1])] = t[2]
    return hdr, E, B


def compare_systems(dump_lines, model_lines, ulps=4):
    h1, E1, B1 = parse_sys(dump_lines)
    h2, E2, B2 = parse_sys(model_lines)
    if h1 is None or h2 is None:
        return dict(what="no system", impl=h1, model=h2)
    if h1 != h2:
        return dict(what="size / bandwidth differ", impl=h1, model=h2)
    if set(E1) != set(E2):
        d = sorted(set(E1) ^ set(E2))[:5]
        return dict(what="stored entries differ", positions=d)
    scale = max([abs(vlib.tok2d(v)) for v in E1.values()] + [1e-300])
    for k in sorted(E1):
        a, b = vlib.tok2d(E1[k]), vlib.tok2d(E2[k])
        if vlib.ulp_diff(a, b) > ulps and abs(a - b) > 1e-13 * scale:
            return dict(what="matrix entry differs", position=k, impl=a, model=b)
    bscale = max([abs(vlib.tok2d(v)) for v in B1.values()] + [1e-300])
    for k in sorted(B1):
        a, b = vlib.tok2d(B1[k]), vlib.tok2d(B2.get(k, "x7FF8000000000000"))
        if vlib.ulp_diff(a, b) > ulps and abs(a - b) > 1e-13 * bscale:
            return dict(what="right-hand side differs", row=k, impl=a, model=b)
    return None


def gen_problem(rng, t):
    p = gen.gen_any("e", rng)
    p.smartmesh = rng.choice([0, 0, 1])
    p.precision = 1e-10
    p.ptype = "planar" if t % 2 == 0 else "axi"
    for lab in p.labels:
        if lab["meshsize"] <= 0:
            lab["meshsize"] = rng.choice([1.0, 1.5, 0.75])
    # multi-node floating conductors: the boundary of a hole box carries a prescribed total charge
    holes = [r for r in p.regions if r["role"] == "hole"]
    if holes and rng.random() < 0.7:
        p.circprops.append(dict(name="cq2", V=0.0, q=rng.choice([2e-9, -1e-9, 5e-10]), type=0))
        r = rng.choice(holes)
        pts = set(r["outer"])
        for s in p.segs:
            a, b = p.nodes[s["n0"]], p.nodes[s["n1"]]
            if (a["x"], a["y"]) in pts and (b["x"], b["y"]) in pts:
                s["cond"] = len(p.circprops) - 1
    # a floating conductor right next to a prescribed-potential boundary (shares elements with fixed nodes)
    if rng.random() < 0.5 and p.family == "rects":
        p.circprops.append(dict(name="cfloat", V=0.0, q=rng.choice([1e-9, -5e-10, 0.0]), type=0))
        p.add_node(0.25, 0.25, cond=len(p.circprops) - 1)
    add_external_region(p, rng)
    p.src_on_fixed = gen.point_source_on_constrained(p, rng)
    # every problem uses each kind of boundary condition it defines somewhere on its outer box: a surface-charge (type 2) and a mixed (type 1)
    # condition that no line carries are not exercised at all (a seeded change of the axisymmetric surface-charge weight went unreported at
    # one seed for that reason)
    gen.use_all_bdry(p, (1, 2))
    return p


def add_external_region(p, rng):
    """axisymmetric problems: every third one has an EXTERNAL region (Kelvin-transformed exterior: [extZo] [extRo] [extRi] and a block label
    flagged external).  The whole assembly of such a problem is compared with the Lean model, and the SI oracle of stage P scales the material
    constant of the external elements by Ri*Ro/|centroid-(0,Zo)|^2 itself (fem_oracle.Mesh.kelvin), from the values in the drawing's own units."""
    p.has_ext = False
    if p.ptype == "axi" and len(p.labels) > 1 and rng.random() < 0.5:
        W = max(n["x"] for n in p.nodes)
        p.ext = (rng.choice([1.5, -0.75, 0.0, 3.0]), rng.choice([2.0 * W, 20.0]), rng.choice([W, 8.0]))
        rng.choice(p.labels[1:])["ext"] = 1
        p.has_ext = True


def main(argv):
    ck = vlib.Check("C03", "proof", argv)
    ck.cov["rule"] = ("generated electrostatic problems (nested boxes / discs; planar and axisymmetric; 6 length units; anisotropic "
                      "permittivity; volume / surface / point charges; BC types 0-2; conductors of both kinds incl. floating "
                      "conductors adjacent to prescribed nodes) meshed by the real fmesher and solved by the real esolver; "
                      "non-trivial = at least one free node and one source or non-zero prescribed value; distinct by problem signature")
    ck.assumptions += ["in an external (Kelvin-transformed) region the oracle scales the permittivity per element at the centroid (the discretisation the solver documents) and, like the solver, leaves volume charge unscaled",
                       "solver accuracy is observed (hook log, oracle residual at Precision 1e-10), not proved",
                       "the oracle assigns boundary conditions geometrically (1e-9 relative tolerance)"]
    ck.run_stage_a()
    build = vlib.build_repo("plain")
    try:
        hx = vlib.compile_harness("assemble_harness", build, ("esolver", "femm", "luacomplex"))
    except vlib.BuildError as e:
        ck.obligation_broken("correspondence assemble_harness<->ESolver: " + str(e)[:400])
        hx = None
    mx = vlib.model_exe()
    work = vlib.workdir("C03")
    nprob = 24 if ck.tier == "quick" else 200
    rng = ck.rng
    stats = dict(planar=0, axi=0, units={}, families={}, nodes=0, floating=0, fixed_conductors=0, bc_types={0: 0, 1: 0, 2: 0},
                 worst_oracle_residual=0.0, worst_hook_residual=0.0, systems_compared=0, entries_compared=0)
    try:
        for t in range(nprob):
            p = gen_problem(rng, t)
            run = Run(build, work, "p%d" % t, p)
            stats[p.ptype if p.ptype == "planar" else "axi"] += 1
            stats["units"][p.units] = stats["units"].get(p.units, 0) + 1
            stats["families"][p.family] = stats["families"].get(p.family, 0) + 1
            for b in p.bdryprops:
                stats["bc_types"][b["type"]] = stats["bc_types"].get(b["type"], 0) + 1
            sig = (p.family, p.ptype, p.units, len(p.nodes), len(p.segs), tuple(sorted((c["type"], c["V"], c["q"]) for c in p.circprops)),
                   tuple((b["ex"], b["ey"], b["qv"]) for b in p.blockprops))
            ck.case(sig, nontrivial=True, sample=dict(family=p.family, type=p.ptype, units=p.units, nodes=len(p.nodes), segs=len(p.segs),
                                                     conductors=[(c["type"], c["V"], c["q"]) for c in p.circprops],
                                                     materials=[(b["ex"], b["ey"], b["qv"]) for b in p.blockprops]) if t < 3 else None)
            if run.mesh() != 0:
                ck.violation("mesher-failed", "fmesher failed on a generated problem: " + run.mesh_out[-300:], dict(files=run.files()))
                continue
            mesh_nodes = femmio.read_node(run.snap(".node"))
            # ---- stage B: model vs the system the real assembly produces
            if hx:
                dump = os.path.join(run.dir, "sys_harness.txt")
                env = dict(os.environ, XFEMM_VERIF_DUMPSYS=dump)
                r = subprocess.run([hx, "e", run.base], stdout=subprocess.PIPE, stderr=subprocess.PIPE, text=True, env=env, timeout=300)
                proto = [l for l in r.stdout.splitlines() if l.split() and l.split()[0] in PROTO]
                if r.returncode != 0 or not os.path.exists(dump) or not proto:
                    ck.violation("assembly-crash", "the real ESolver (in-process) failed on a generated problem (rc=%d): %s" % (r.returncode, r.stderr[-300:]),
                                 dict(files=run.files()))
                else:
                    m = subprocess.run([mx, "assemble-e"], input="\n".join(proto) + "\n", stdout=subprocess.PIPE, text=True, timeout=300)
                    d = compare_systems(open(dump).read().splitlines(), m.stdout.splitlines())
                    stats["systems_compared"] += 1
                    stats["entries_compared"] += sum(1 for l in m.stdout.splitlines() if l.startswith("E "))
                    if d:
                        ck.obligation_broken("correspondence assemble-e: ESolver::AnalyzeProblem vs Model/ESolver.lean (%s)" % d["what"],
                                             dict(first_difference=d, files=run.files()))
                run.restore_mesh()
            # ---- the real solver binary, hooks on
            slog = os.path.join(run.dir, "solve.log")
            rc = run.solve(env=dict(os.environ, XFEMM_VERIF_SOLVELOG=slog))
            if rc != 0 or not os.path.exists(run.solution_path()):
                ck.violation("solver-failed", "esolver failed (rc=%s) on a well-formed generated problem: %s" % (rc, run.solve_out[-300:]),
                             dict(files=run.files()))
                continue
            if os.path.exists(slog):
                for l in open(slog):
                    mres = [x for x in l.split() if x.startswith("relres=")]
                    if mres:
                        v = float(mres[0].split("=")[1])
                        stats["worst_hook_residual"] = max(stats["worst_hook_residual"], v)
                        if not (v <= 1e-6):
                            ck.violation("true-residual", "PCGSolve returned with true relative residual %.3g" % v, dict(files=run.files(), log=l))
            # ---- stage P: independent oracle on the .res
            sol = femmio.read_solution(run.solution_path(), "e")
            cuthill_tie.tie(ck, stats, mx, run, sol, "esolver")
            stats["nodes"] += len(sol["nodes"])
            from scipy.spatial import cKDTree
            A = np.array([[n[0], n[1]] for n in mesh_nodes]); Bn = np.array([[n[0], n[1]] for n in sol["nodes"]])
            ok_perm = len(A) == len(Bn)
            if ok_perm:
                dist, idx = cKDTree(A).query(Bn)
                ok_perm = len(set(idx.tolist())) == len(A) and float(dist.max()) <= 1e-9 * max(1.0, float(np.abs(A).max()))
            if not ok_perm:
                ck.violation("renumbering", "the nodes of the solution file are not a permutation of the mesh nodes", dict(files=run.files()))
                continue
            if getattr(p, "has_ext", False):
                stats["external_region_problems"] = stats.get("external_region_problems", 0) + 1
            if getattr(p, "src_on_fixed", False):
                stats["point_source_on_constrained_node"] = stats.get("point_source_on_constrained_node", 0) + 1
            mesh = fem_oracle.Mesh(p, sol)
            if (mesh.area <= 0).any():
                ck.violation("renumbering", "the solution file contains a non-positive element", dict(files=run.files()))
                continue
            K, f, fixed, cond = fem_oracle.electrostatics_system(mesh)
            V = np.array([v[0] for v in mesh.vals])
            rest = [l.split() for l in sol["rest"] if l.strip()]
            nc = int(rest[0][0]) if rest else 0
            rep = [float(r[1]) for r in rest[1:1 + nc]]
            findings, res = fem_oracle.check_solution(K, f, V, fixed, cond, p.circprops, rep, tol=1e-7, K_stiff=mesh.K_stiff)
            stats["worst_oracle_residual"] = max(stats["worst_oracle_residual"], res["global_residual"])
            stats["floating"] += sum(1 for c, cp in enumerate(p.circprops) if cp["type"] == 0 and c in cond.values())
            stats["fixed_conductors"] += sum(1 for c, cp in enumerate(p.circprops) if cp["type"] == 1 and c in cond.values())
            for (key, what, data) in findings[:2]:
                ck.violation("oracle:" + key, "esolver's solution violates the independently assembled equations: " + what,
                             dict(files=run.files(), detail=data, problem_type=p.ptype, units=p.units))
    finally:
        shutil.rmtree(work, ignore_errors=True)
    ck.notes["input_distribution"] = stats
    ck.notes["tolerances"] = "model vs hook dump: <=4 ulp or 1e-13*scale; oracle global residual 1e-7 at Precision 1e-10; charges 1e-5 relative"
    return ck.finish()
