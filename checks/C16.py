"""C16 — geometry edits keep the drawing a proper planar line graph.

stage A: translator tools/translate_edit.py (how deleteSelectedNodes marks attached lines / arcs) -> Generated/Edit.lean;
         Properties/C16.lean over Model/Edit.lean: deleting any set of selected points keeps every line / arc joining two
         distinct existing points and the same two points (faithful renumbering); the TOGGLE marking is shown unsafe by a
         witness; the property theorem is stated for the marking the current source uses
stage B: the real deletion commands (femmcli, drawing saved before and after) vs Model/Edit.lean on the same drawing and
         selection: same surviving points, lines and arcs
stage P: random sequences of add-point / line / arc / label, select + delete (each kind, all), move, copy, mirror, rotate, scale,
         create-radius with coincident, collinear, crossing and near-miss placements through the real femmcli; after EVERY
         operation the saved drawing is checked: points apart, every line / arc joins two distinct existing points, no
         duplicates, no proper crossing of two lines (exact arithmetic), no point inside a line, no label on a point or line,
         nothing left selected; copies at the transformed coordinates with their properties and groups
"""
import math, os, shutil, subprocess, sys
from fractions import Fraction
sys.path.insert(0, os.path.join(os.path.dirname(os.path.dirname(os.path.abspath(__file__))), "harness", "py"))
from tools import vlib, translate_edit
from tools.vlib import d2tok, tok2d
import femmio, meshgeom

PRE = {"m": "mi_", "e": "ei_", "h": "hi_"}
DOC = {"m": 0, "e": 1, "h": 2}


def n17(x):
    return "%.17g" % x


def load(path):
    d = femmio.read_problem(path)
    g = d["geom"]
    nodes = [(float(r[0]), float(r[1]), int(r[3]) if len(r) > 3 else 0) for r in g.get("nodes", [])]
    segs = [(int(r[0]), int(r[1]), int(r[5]) if len(r) > 5 else 0, int(r[3])) for r in g.get("segs", [])]
    arcs = [(int(r[0]), int(r[1]), float(r[2]), int(r[6]) if len(r) > 6 else 0) for r in g.get("arcs", [])]
    labels = [(float(r[0]), float(r[1])) for r in g.get("labels", [])] + [(float(r[0]), float(r[1])) for r in g.get("holes", [])]
    return dict(nodes=nodes, segs=segs, arcs=arcs, labels=labels)


def proper_crossing(a, b, c, d):
    """segments ab and cd cross in a point interior to both (exact)"""
    A, B, C, D = [(Fraction(p[0]), Fraction(p[1])) for p in (a, b, c, d)]
    o = lambda p, q, r: (q[0] - p[0]) * (r[1] - p[1]) - (q[1] - p[1]) * (r[0] - p[0])
    o1, o2, o3, o4 = o(A, B, C), o(A, B, D), o(C, D, A), o(C, D, B)
    return (o1 > 0) != (o2 > 0) and o1 != 0 and o2 != 0 and (o3 > 0) != (o4 > 0) and o3 != 0 and o4 != 0


def dist_point_seg(p, a, b):
    L2 = (b[0] - a[0]) ** 2 + (b[1] - a[1]) ** 2
    if L2 == 0:
        return math.hypot(p[0] - a[0], p[1] - a[1]), 0.0
    t = ((p[0] - a[0]) * (b[0] - a[0]) + (p[1] - a[1]) * (b[1] - a[1])) / L2
    tt = min(1.0, max(0.0, t))
    return math.hypot(p[0] - (a[0] + tt * (b[0] - a[0])), p[1] - (a[1] + tt * (b[1] - a[1]))), t


def invariants(D):
    """-> (key, message) of the first violated clause, or None"""
    N = len(D["nodes"])
    xs = [n[0] for n in D["nodes"]] + [0.0]
    ys = [n[1] for n in D["nodes"]] + [0.0]
    size = math.hypot(max(xs) - min(xs), max(ys) - min(ys)) or 1.0
    tol = 1e-6 * size
    for i in range(N):
        for j in range(i + 1, N):
            # the tolerance in force when a point was added depends on the drawing at that time (checked per addnode below); here only
            # the smallest tolerance any command uses
            if math.hypot(D["nodes"][i][0] - D["nodes"][j][0], D["nodes"][i][1] - D["nodes"][j][1]) < 1e-8:
                return ("points-coincide", "points %d and %d are both at (%.12g, %.12g)" % (i, j, D["nodes"][i][0], D["nodes"][i][1]))
    for kind in ("segs", "arcs"):
        seen = set()
        for k, e in enumerate(D[kind]):
            if not (0 <= e[0] < N and 0 <= e[1] < N):
                return ("dangling", "%s %d joins points %d and %d, there are %d points" % (kind[:-1], k, e[0], e[1], N))
            if e[0] == e[1]:
                return ("self-joined", "%s %d joins point %d with itself" % (kind[:-1], k, e[0]))
            key = (min(e[0], e[1]), max(e[0], e[1])) if kind == "segs" else (e[0], e[1], round(e[2], 9))
            if key in seen:
                return ("duplicate-among-arcs" if (kind == "segs" and len(D["arcs"]) >= 5) else "duplicate", "%s %d duplicates an earlier one between points %d and %d" % (kind[:-1], k, e[0], e[1]))
            seen.add(key)
    P = [(n[0], n[1]) for n in D["nodes"]]
    S = D["segs"]
    for i in range(len(S)):
        for j in range(i + 1, len(S)):
            if len({S[i][0], S[i][1], S[j][0], S[j][1]}) == 4 and proper_crossing(P[S[i][0]], P[S[i][1]], P[S[j][0]], P[S[j][1]]):
                # a crossing within the snap tolerance of an end point of either line is that end point to the commands (the same rule
                # as for points next to the end of a line below): lines between points that were placed closer together than the
                # tolerance of the grown drawing are not split there
                a_, b_, c_, d_ = P[S[i][0]], P[S[i][1]], P[S[j][0]], P[S[j][1]]
                den = (b_[0] - a_[0]) * (d_[1] - c_[1]) - (b_[1] - a_[1]) * (d_[0] - c_[0])
                if den != 0:
                    tt = ((c_[0] - a_[0]) * (d_[1] - c_[1]) - (c_[1] - a_[1]) * (d_[0] - c_[0])) / den
                    X = (a_[0] + tt * (b_[0] - a_[0]), a_[1] + tt * (b_[1] - a_[1]))
                    if min(math.hypot(X[0] - q[0], X[1] - q[1]) for q in (a_, b_, c_, d_)) < tol * 1.5:
                        continue
                return ("crossing", "lines %d (%d-%d) and %d (%d-%d) cross without a point at the crossing" % (i, S[i][0], S[i][1], j, S[j][0], S[j][1]))
    # ---- arcs cross arcs and lines only at points: every circle / circle and circle / line intersection that lies strictly inside both
    # entities (more than three snap tolerances from their ends) has to be a point of the drawing where both are split, so no such
    # intersection may exist between two entities
    A_ = []
    for a in D["arcs"]:
        if a[0] == a[1] or not (0 <= a[0] < N and 0 <= a[1] < N) or not (0 < a[2] < 360):
            continue
        (cx, cy), R = meshgeom.arc_circle(P[a[0]], P[a[1]], a[2])
        A_.append((cx, cy, R, math.atan2(P[a[0]][1] - cy, P[a[0]][0] - cx), math.radians(a[2]), a))

    def inside_arc(q, arc):
        cx, cy, R, a0, th, _ = arc
        dd = (math.atan2(q[1] - cy, q[0] - cx) - a0) % (2 * math.pi)
        m_ = 3 * tol / R
        return m_ < dd < th - m_
    for i in range(len(A_)):
        for j in range(i + 1, len(A_)):
            x0, y0, R0 = A_[i][:3]
            x1, y1, R1 = A_[j][:3]
            dc = math.hypot(x1 - x0, y1 - y0)
            if dc < 1e-9 * max(R0, R1) or dc > R0 + R1 or dc < abs(R0 - R1):
                continue
            aa = (R0 * R0 - R1 * R1 + dc * dc) / (2 * dc)
            hh2 = R0 * R0 - aa * aa
            if hh2 <= (10 * tol) ** 2:
                continue            # tangent or nearly so: not a crossing that can be decided
            hh = math.sqrt(hh2)
            ux, uy = (x1 - x0) / dc, (y1 - y0) / dc
            for sg in (1, -1):
                q = (x0 + aa * ux - sg * hh * uy, y0 + aa * uy + sg * hh * ux)
                if inside_arc(q, A_[i]) and inside_arc(q, A_[j]):
                    return ("arc-crossing", "arcs %r and %r cross at (%.9g, %.9g), inside both, without a point there" % (A_[i][5][:3], A_[j][5][:3], q[0], q[1]))
    for arc in A_:
        cx, cy, R = arc[:3]
        for i, s in enumerate(S):
            a, b = P[s[0]], P[s[1]]
            L = math.hypot(b[0] - a[0], b[1] - a[1])
            if L == 0:
                continue
            ux, uy = (b[0] - a[0]) / L, (b[1] - a[1]) / L
            t0 = (cx - a[0]) * ux + (cy - a[1]) * uy
            dperp2 = (cx - a[0] - t0 * ux) ** 2 + (cy - a[1] - t0 * uy) ** 2
            if R * R - dperp2 <= (10 * tol) ** 2:
                continue
            hh = math.sqrt(R * R - dperp2)
            for t_ in (t0 - hh, t0 + hh):
                if 3 * tol < t_ < L - 3 * tol:
                    q = (a[0] + t_ * ux, a[1] + t_ * uy)
                    if inside_arc(q, arc):
                        return ("arc-line-crossing", "line %d (%d-%d) and arc %r cross at (%.9g, %.9g), inside both, without a point there" % (i, s[0], s[1], arc[5][:3], q[0], q[1]))
    for i, s in enumerate(S):
        for k in range(N):
            if k in (s[0], s[1]):
                continue
            d, t = dist_point_seg(P[k], P[s[0]], P[s[1]])
            # points within the snap tolerance of an end point of the line are not split points (the commands skip them on purpose)
            if min(math.hypot(P[k][0] - P[s[0]][0], P[k][1] - P[s[0]][1]), math.hypot(P[k][0] - P[s[1]][0], P[k][1] - P[s[1]][1])) < tol * 1.5:
                continue
            if d < tol * 0.1 and 1e-9 < t < 1 - 1e-9:
                if D["arcs"] and min(math.hypot(P[k][0] - P[s[0]][0], P[k][1] - P[s[0]][1]), math.hypot(P[k][0] - P[s[1]][0], P[k][1] - P[s[1]][1])) < tol * 3:
                    # (own key: a known finding lives here - a point, typically the crossing with an arc, between 1.5 and 3 tolerances from the end of a line)
                    return ("point-on-line-near-end", "point %d at (%.12g, %.12g) lies inside line %d (%d-%d), %.3g from its end (snap tolerance %.3g), and the line is not split there"
                            % (k, P[k][0], P[k][1], i, s[0], s[1], min(math.hypot(P[k][0] - P[s[0]][0], P[k][1] - P[s[0]][1]), math.hypot(P[k][0] - P[s[1]][0], P[k][1] - P[s[1]][1])), tol))
                return ("point-on-line", "point %d at (%.12g, %.12g) lies inside line %d (%d-%d), which is not split there" % (k, P[k][0], P[k][1], i, s[0], s[1]))
    for k, lb in enumerate(D["labels"]):
        for i in range(N):
            if math.hypot(lb[0] - P[i][0], lb[1] - P[i][1]) < tol * 0.1:
                return ("label-on-point", "block label %d sits on point %d at (%.12g, %.12g)" % (k, i, lb[0], lb[1]))
        for i, s in enumerate(S):
            d, t = dist_point_seg(lb, P[s[0]], P[s[1]])
            if d < tol * 0.1:
                return ("label-on-line", "block label %d at (%.12g, %.12g) sits on line %d" % (k, lb[0], lb[1], i))
    return None


REBUILD_OPS = ("movetranslate", "copytranslate", "mirror", "moverotate", "copyrotate", "scale")


def canon(D):
    P = [(n[0], n[1]) for n in D["nodes"]]
    return (sorted(P), sorted(tuple(sorted((P[s[0]], P[s[1]]))) for s in D["segs"] if s[0] < len(P) and s[1] < len(P)),
            sorted((P[a[0]], P[a[1]], round(a[2], 9)) for a in D["arcs"] if a[0] < len(P) and a[1] < len(P)), sorted(D["labels"]))


def main(argv):
    ck = vlib.Check("C16", "proof", argv)
    ck.cov["rule"] = ("random operation sequences (25-40 operations) through the real femmcli on the three document types: points on a half-unit grid with "
                      "coincident / near-miss (1e-7) / on-line placements, lines between existing points (crossing, collinear, overlapping), arcs, labels, "
                      "select + delete of each kind and of everything (incl. a point together with its line), translate / rotate / scale moves, translate / "
                      "rotate copies (1-3 copies), mirror, create-radius; the drawing is saved and examined after every operation")
    ck.assumptions += ["the snap tolerance is the one the commands use: 1e-6 of the bounding-box diagonal of the points",
                       "arcs are checked for end points, duplicates, dangling references and for crossings with arcs and lines that are no points of the drawing (tangencies within ten snap tolerances are not decided)"]
    try:
        text = translate_edit.generate(vlib.REPO)
        with vlib.LeanLock():
            vlib.write_if_changed(os.path.join(vlib.LEAN, "XfemmVerif", "Generated", "Edit.lean"), text)
    except translate_edit.TranslateError as e:
        ck.obligation_broken("translator edit: pattern no longer matches the source: %s" % e)
    ck.run_stage_a()
    build = vlib.build_repo("plain")
    mx = vlib.model_exe()
    rng = ck.rng
    stats = dict(sequences=0, operations=0, by_op={}, states_checked=0, delete_ops_vs_model=0, copies_checked=0, max_points=0, max_lines=0)
    work = vlib.workdir("C16")
    nseq = 12 if ck.tier == "quick" else 150
    nviol = 0
    try:
        for t in range(nseq):
            kind = "meh"[t % 3]
            pre = PRE[kind]
            ext = femmio.EXT[kind]
            d = os.path.join(work, "q%d" % t)
            os.makedirs(d)
            lines = ["newdocument(%d)" % DOC[kind]]
            ops = []            # (description, meta)
            grid = lambda: rng.randint(0, 12) * 0.5
            known_pts = []

            def emit(desc, cmds, meta=None):
                ops.append((desc, meta or {}))
                lines.extend(cmds)
                lines.append('%ssaveas("s%03d%s")' % (pre, len(ops) - 1, ext))
                if desc in ("movetranslate", "copytranslate", "mirror", "moverotate", "copyrotate", "scale", "createradius", "delete-all"):
                    # these operate on the selection and must leave nothing selected: deleting "the selection" changes nothing
                    lines.append("%sdeleteselected()" % pre)
                    lines.append('%ssaveas("c%03d%s")' % (pre, len(ops) - 1, ext))
                    ops[-1][1]["unselected_check"] = True

            nops = rng.randint(25, 40)
            # a deliberate scenario first in some sequences: a point selected together with the line attached to it
            if t % 4 == 1:
                emit("addnode", ["%saddnode(0,0)" % pre]); emit("addnode", ["%saddnode(2,0)" % pre]); emit("addnode", ["%saddnode(2,2)" % pre])
                emit("addsegment", ["%saddsegment(0,0,2,0)" % pre]); emit("addsegment", ["%saddsegment(2,0,2,2)" % pre])
                known_pts += [(0.0, 0.0), (2.0, 0.0), (2.0, 2.0)]
                emit("delete-nodes(point+its line selected)", ["%sclearselected()" % pre, "%sselectsegment(1,0)" % pre, "%sselectnode(0,0)" % pre,
                                                               "%sdeleteselectednodes()" % pre], dict(delete="nodes", sel_nodes=[(0.0, 0.0)], sel_segs=[(1.0, 0.0)]))
            if t % 4 == 2:
                # a corner that is suitable for a radius
                for (x, y) in ((8.0, 8.0), (10.0, 8.0), (10.0, 10.0)):
                    emit("addnode", ["%saddnode(%s,%s)" % (pre, n17(x), n17(y))])
                    known_pts.append((x, y))
                emit("addsegment", ["%saddsegment(8,8,10,8)" % pre]); emit("addsegment", ["%saddsegment(10,8,10,10)" % pre])
                emit("createradius", ["%screateradius(10,8,%s)" % (pre, n17(rng.choice([0.25, 0.5])))])
            for _ in range(nops):
                r = rng.random()
                if r < 0.22 or len(known_pts) < 3:
                    x, y = grid(), grid()
                    if known_pts and rng.random() < 0.25:
                        bx, by = rng.choice(known_pts)
                        x, y = rng.choice([(bx, by), (bx + 1e-7, by), (bx, by - 2e-7), ((bx + rng.choice(known_pts)[0]) / 2, (by + rng.choice(known_pts)[1]) / 2)])
                    known_pts.append((x, y))
                    emit("addnode", ["%saddnode(%s,%s)" % (pre, n17(x), n17(y))], dict(xy=(x, y)))
                elif r < 0.47:
                    a, b = rng.choice(known_pts), rng.choice(known_pts)
                    emit("addsegment", ["%saddsegment(%s,%s,%s,%s)" % (pre, n17(a[0]), n17(a[1]), n17(b[0]), n17(b[1]))])
                elif r < 0.56:
                    a, b = rng.choice(known_pts), rng.choice(known_pts)
                    emit("addarc", ["%saddarc(%s,%s,%s,%s,%s,%s)" % (pre, n17(a[0]), n17(a[1]), n17(b[0]), n17(b[1]), n17(rng.choice([30.0, 90.0, 180.0])), n17(rng.choice([5.0, 10.0])))])
                elif r < 0.62:
                    x, y = grid() + rng.choice([0.0, 0.25, 0.1]), grid() + rng.choice([0.0, 0.25])
                    emit("addblocklabel", ["%saddblocklabel(%s,%s)" % (pre, n17(x), n17(y))])
                elif r < 0.75:
                    what = rng.choice(["nodes", "segments", "arcsegments", "labels", "all", "nodes"])
                    cmds = ["%sclearselected()" % pre]
                    meta = dict(delete=what, sel_nodes=[], sel_segs=[])
                    for _ in range(rng.randint(1, 3)):
                        if what in ("nodes", "all") or rng.random() < 0.3:
                            q = rng.choice(known_pts)
                            cmds.append("%sselectnode(%s,%s)" % (pre, n17(q[0]), n17(q[1])))
                            meta["sel_nodes"].append(q)
                        if what in ("segments", "all") or (what == "nodes" and rng.random() < 0.5):
                            a, b = rng.choice(known_pts), rng.choice(known_pts)
                            mpt = ((a[0] + b[0]) / 2, (a[1] + b[1]) / 2)
                            cmds.append("%sselectsegment(%s,%s)" % (pre, n17(mpt[0]), n17(mpt[1])))
                            meta["sel_segs"].append(mpt)
                        if what in ("arcsegments", "all"):
                            q = rng.choice(known_pts)
                            cmds.append("%sselectarcsegment(%s,%s)" % (pre, n17(q[0] + 0.3), n17(q[1] + 0.3)))
                        if what in ("labels", "all"):
                            cmds.append("%sselectlabel(%s,%s)" % (pre, n17(grid()), n17(grid())))
                    cmds.append({"nodes": "%sdeleteselectednodes()", "segments": "%sdeleteselectedsegments()", "arcsegments": "%sdeleteselectedarcsegments()",
                                 "labels": "%sdeleteselectedlabels()", "all": "%sdeleteselected()"}[what] % pre)
                    emit("delete-" + what, cmds, meta)
                else:
                    mode = rng.choice([0, 1, 4])
                    cmds = ["%sclearselected()" % pre]
                    sel = []
                    for _ in range(rng.randint(1, 3)):
                        if mode == 0:
                            q = rng.choice(known_pts)
                            cmds.append("%sselectnode(%s,%s)" % (pre, n17(q[0]), n17(q[1])))
                            sel.append(q)
                        else:
                            a, b = rng.choice(known_pts), rng.choice(known_pts)
                            cmds.append("%sselectsegment(%s,%s)" % (pre, n17((a[0] + b[0]) / 2), n17((a[1] + b[1]) / 2)))
                    m1 = 1 if mode == 4 else mode
                    dx, dy = rng.choice([0.5, 1.0, -1.5, 0.0, 3.0]), rng.choice([0.5, -1.0, 2.0, 0.0])
                    op = rng.choice(["movetranslate", "copytranslate", "mirror", "moverotate", "copyrotate", "scale"])
                    if mode == 0 and sel and rng.random() < 0.5:
                        # near-coincident landing: the (last copy of the) first selected point ends 3e-7 beside an existing point or beside the
                        # middle of the stretch between two existing points - inside the snap tolerance of any drawing wider than 0.3 units,
                        # far above rounding: it has to merge with the point / split the line there
                        tgt = rng.choice(known_pts)
                        if rng.random() < 0.5:
                            o = rng.choice(known_pts)
                            tgt = ((tgt[0] + o[0]) / 2, (tgt[1] + o[1]) / 2)
                        off = rng.choice([(3e-7, 0.0), (0.0, -3e-7), (0.0, 0.0)])
                        ncp = rng.randint(1, 3)
                        op = rng.choice(["movetranslate", "copytranslate"])
                        div = ncp if op == "copytranslate" else 1
                        dx, dy = (tgt[0] + off[0] - sel[0][0]) / div, (tgt[1] + off[1] - sel[0][1]) / div
                        cmds.append("%smovetranslate(%s,%s,%d)" % (pre, n17(dx), n17(dy), m1) if op == "movetranslate"
                                    else "%scopytranslate(%s,%s,%d,%d)" % (pre, n17(dx), n17(dy), ncp, m1))
                        emit(op, cmds, dict(mode=m1, sel=sel, dx=dx, dy=dy, near_landing=True))
                        stats["near_coincident_landings"] = stats.get("near_coincident_landings", 0) + 1
                        continue
                    if op == "movetranslate":
                        cmds.append("%smovetranslate(%s,%s,%d)" % (pre, n17(dx), n17(dy), m1))
                    elif op == "copytranslate":
                        cmds.append("%scopytranslate(%s,%s,%d,%d)" % (pre, n17(dx), n17(dy), rng.randint(1, 3), m1))
                    elif op == "mirror":
                        cmds.append("%smirror(%s,%s,%s,%s,%d)" % (pre, n17(grid()), n17(grid()), n17(grid() + 0.5), n17(grid()), m1))
                    elif op == "moverotate":
                        cmds.append("%smoverotate(%s,%s,%s,%d)" % (pre, n17(grid()), n17(grid()), n17(rng.choice([90.0, 45.0, 180.0, 30.0])), m1))
                    elif op == "copyrotate":
                        cmds.append("%scopyrotate(%s,%s,%s,%d,%d)" % (pre, n17(grid()), n17(grid()), n17(rng.choice([90.0, 120.0, 45.0])), rng.randint(1, 3), m1))
                    elif op == "scale":
                        cmds.append("%sscale(%s,%s,%s,%d)" % (pre, n17(grid()), n17(grid()), n17(rng.choice([0.5, 2.0, 1.5])), m1))
                    emit(op, cmds, dict(mode=m1, sel=sel, dx=dx, dy=dy))
                    # the points of the drawing may have moved: refresh from nothing (the next file is read after the run)
            open(os.path.join(d, "s.lua"), "w").write("\n".join(lines) + "\n")
            try:
                r = subprocess.run([os.path.join(build, "cfemm", "bin", "femmcli"), "--lua-script=s.lua"], cwd=d, stdout=subprocess.PIPE, stderr=subprocess.STDOUT,
                                   text=True, timeout=600, errors="replace")
                rc, out = r.returncode, r.stdout
            except subprocess.TimeoutExpired:
                rc, out = -999, "timeout"
            stats["sequences"] += 1
            script = "\n".join(lines)
            prev = dict(nodes=[], segs=[], arcs=[], labels=[])
            failed = False
            for k, (desc, meta) in enumerate(ops):
                f = os.path.join(d, "s%03d%s" % (k, ext))
                stats["operations"] += 1
                stats["by_op"][desc.split("(")[0]] = stats["by_op"].get(desc.split("(")[0], 0) + 1
                if not os.path.exists(f):
                    ck.case((t, k, desc), nontrivial=True)
                    if nviol < 5:
                        nviol += 1
                        ck.violation("edit-crash:" + desc.split("(")[0], "femmcli stops (rc=%s) at operation %d (%s) of an editing sequence: %s"
                                     % (rc, k, desc, " ".join(out[-300:].split())), dict(script=script, operation=k))
                    failed = True
                    break
                D = load(f)
                stats["states_checked"] += 1
                stats["max_points"] = max(stats["max_points"], len(D["nodes"]))
                stats["max_lines"] = max(stats["max_lines"], len(D["segs"]))
                ck.case((t, k, desc, len(D["nodes"]), len(D["segs"])), nontrivial=len(D["nodes"]) > 2,
                        sample=dict(operation=desc, points=len(D["nodes"]), lines=len(D["segs"]), arcs=len(D["arcs"])) if (t == 0 and k in (5, 20)) else None)
                bad = invariants(D)
                if not bad and desc in REBUILD_OPS and len(D["nodes"]) > 1 and canon(D) != canon(prev):
                    # (an operation that changed nothing - empty selection, degenerate mirror line - returns before the rebuild)
                    # these operations rebuild the whole drawing with ONE tolerance, 1e-6 of the bounding-box diagonal of all points before
                    # merging (at least that of the result): afterwards no two points are closer than the snap tolerance of the drawing
                    Pn = [(n[0], n[1]) for n in D["nodes"]]
                    diag = math.hypot(max(q[0] for q in Pn) - min(q[0] for q in Pn), max(q[1] for q in Pn) - min(q[1] for q in Pn))
                    srt = sorted(range(len(Pn)), key=lambda i: Pn[i])
                    for ii, i in enumerate(srt):
                        for j in srt[ii + 1:]:
                            if Pn[j][0] - Pn[i][0] > 1e-6 * diag:
                                break
                            dd = math.hypot(Pn[i][0] - Pn[j][0], Pn[i][1] - Pn[j][1])
                            if dd < 0.999e-6 * diag:
                                bad = ("snap-after-rebuild", "points %d (%.12g, %.12g) and %d (%.12g, %.12g) are %.3g apart, the snap tolerance of the drawing is %.3g"
                                       % (i, Pn[i][0], Pn[i][1], j, Pn[j][0], Pn[j][1], dd, 1e-6 * diag))
                                break
                        if bad:
                            break
                if not bad and desc == "addnode" and meta.get("xy"):
                    Pp = [(n[0], n[1]) for n in prev["nodes"]]
                    if len(Pp) < 2:
                        dtol = 1e-8
                    else:
                        dtol = math.hypot(max(q[0] for q in Pp) - min(q[0] for q in Pp), max(q[1] for q in Pp) - min(q[1] for q in Pp)) * 1e-6
                    near = [q for q in Pp if math.hypot(q[0] - meta["xy"][0], q[1] - meta["xy"][1]) < dtol * 0.999]
                    # a point is also refused on top of a block label (the "no label on a point" clause, from the other side)
                    clear_ = all(math.hypot(q[0] - meta["xy"][0], q[1] - meta["xy"][1]) > dtol * 1.001 for q in Pp + list(prev["labels"]))
                    if near and len(D["nodes"]) != len(Pp):
                        bad = ("snap", "a point added at (%.12g, %.12g), %.3g from the existing point (%.12g, %.12g) (tolerance %.3g), was not rejected"
                               % (meta["xy"][0], meta["xy"][1], math.hypot(near[0][0] - meta["xy"][0], near[0][1] - meta["xy"][1]), near[0][0], near[0][1], dtol))
                    elif clear_ and len(D["nodes"]) != len(Pp) + 1:
                        bad = ("add", "a point added at (%.12g, %.12g), clear of every existing point, did not appear" % meta["xy"])
                if bad:
                    if nviol < 5:
                        nviol += 1
                        ck.violation("pslg:%s:%s" % (bad[0], desc.split("(")[0]), "after operation %d (%s) of an editing sequence on a %s document: %s"
                                     % (k, desc, ext, bad[1]), dict(script=script, operation=k, commands_of_operation=desc,
                                                                    drawing=dict(nodes=D["nodes"][:40], segs=D["segs"][:60], arcs=D["arcs"][:20])))
                    failed = True
                    break
                # ---- deleting never changes what a surviving line / arc joins
                if desc.startswith("delete-") and not bad:
                    c0, c1 = canon(prev), canon(D)
                    for name, a_, b_ in (("point", c1[0], c0[0]), ("line", c1[1], c0[1]), ("arc", c1[2], c0[2]), ("label", c1[3], c0[3])):
                        extra = [x for x in a_ if x not in set(b_)]
                        if extra:
                            if nviol < 5:
                                nviol += 1
                                ck.violation("delete-changed:%s" % name, "after operation %d (%s) the drawing holds a %s that was not there before the deletion: %r (renumbering)"
                                             % (k, desc, name, extra[0]), dict(script=script, operation=k))
                            failed = True
                            break
                    if failed:
                        break
                # ---- stage B: deletion of points vs the model
                if meta.get("delete") == "nodes" and prev["nodes"]:
                    P = [(n[0], n[1]) for n in prev["nodes"]]
                    seln = set()
                    for q in meta["sel_nodes"]:
                        # selectnode picks the closest point and TOGGLES it
                        j = min(range(len(P)), key=lambda i: math.hypot(P[i][0] - q[0], P[i][1] - q[1]))
                        seln ^= {j}
                    sels = set()
                    for q in meta["sel_segs"]:
                        if prev["segs"]:
                            j = min(range(len(prev["segs"])), key=lambda i: dist_point_seg(q, P[prev["segs"][i][0]], P[prev["segs"][i][1]])[0])
                            sels ^= {j}
                    req = ["state %d" % len(P) + " " + " ".join("1" if i in seln else "0" for i in range(len(P))),
                           "segs " + " ".join("%d:%d:%d" % (s_[0], s_[1], 1 if i in sels else 0) for i, s_ in enumerate(prev["segs"])),
                           "arcs " + " ".join("%d:%d:0" % (a_[0], a_[1]) for a_ in prev["arcs"]),
                           "delnodes"]
                    rep, _, _ = vlib.run_lines([mx, "edit"], req)
                    stats["delete_ops_vs_model"] += 1
                    import re as _re
                    mm = _re.match(r"nodes\s*(\S*?)\s*segs\s*(\S*?)\s*arcs\s*(\S*)\s*$", rep[3]) if len(rep) >= 4 else None
                    if mm:
                        keep = [int(x) for x in mm.group(1).split(",") if x]
                        msegs = [tuple(int(v) for v in x.split(":")) for x in mm.group(2).split(",") if x]
                        marcs = [tuple(int(v) for v in x.split(":")) for x in mm.group(3).split(",") if x]
                        pt = lambda a: P[keep[a]] if a < len(keep) else ("bad", a)
                        model_state = (sorted(P[i] for i in keep), sorted(tuple(sorted((pt(a), pt(b)), key=repr)) for a, b in msegs), sorted((pt(a), pt(b)) for a, b in marcs))
                        Pd = [(n[0], n[1]) for n in D["nodes"]]
                        ptd = lambda a: Pd[a] if a < len(Pd) else ("bad", a)
                        impl_state = (sorted(Pd), sorted(tuple(sorted((ptd(s_[0]), ptd(s_[1])), key=repr)) for s_ in D["segs"]), sorted((ptd(a_[0]), ptd(a_[1])) for a_ in D["arcs"]))
                        if model_state != impl_state:
                            ck.obligation_broken("correspondence deleteSelectedNodes<->Model/Edit.lean: the model leaves another drawing than femmcli after operation %d (%s)" % (k, desc),
                                                 dict(script=script, operation=k, model=repr(model_state)[:800], impl=repr(impl_state)[:800]))
                    else:
                        ck.obligation_broken("correspondence: the model driver did not answer the delnodes request", dict(reply=rep))
                prev = D
            if failed:
                continue
        # ================= copies of arcs land where the transformation puts them
        # one arc, selected as an arc, copied by translation / rotation / mirror: the saved drawing has to hold the original and the image;
        # the image of the counter-clockwise arc P0 -> P1 under a rotation or translation T is T(P0) -> T(P1), under a mirror M it is
        # M(P1) -> M(P0) (a reflection reverses the sense), with the same angle; its mid point is the transformed mid point
        narc = 18 if ck.tier == "quick" else 240
        d = os.path.join(work, "arcs")
        os.makedirs(d)
        lines, cases = [], []
        for t in range(narc):
            kind = "meh"[t % 3]
            pre = PRE[kind]
            a = (rng.randint(-8, 8) * 0.5, rng.randint(-8, 8) * 0.5)
            b = (a[0] + rng.choice([1.0, 2.0, -1.5, 0.5]), a[1] + rng.choice([1.0, -2.0, 0.75]))
            ang = rng.choice([30.0, 60.0, 90.0, 135.0, 170.0])
            ca, cb = complex(*a), complex(*b)
            # centre and mid point of the arc a -> b (counter-clockwise, angle ang)
            R = abs(cb - ca) / (2 * math.sin(math.radians(ang) / 2))
            cen = (ca + cb) / 2 + 1j * (cb - ca) / abs(cb - ca) * R * math.cos(math.radians(ang) / 2)
            mid = cen + (ca - cen) * complex(math.cos(math.radians(ang) / 2), math.sin(math.radians(ang) / 2))
            op = ["mirror", "copyrotate", "copytranslate"][(t // 3) % 3]
            if op == "mirror":
                p0 = complex(rng.randint(-6, 6), rng.randint(-6, 6)); p1 = p0 + complex(rng.choice([1, 0, 2, -1]), rng.choice([1, 2, -3]))
                u = (p1 - p0) / abs(p1 - p0)
                T = lambda z, p0=p0, u=u: p0 + u * ((z - p0) / u).conjugate()
                cmd = "%smirror(%s,%s,%s,%s,3)" % (pre, n17(p0.real), n17(p0.imag), n17(p1.real), n17(p1.imag))
                want = (T(cb), T(ca))
            elif op == "copyrotate":
                c0 = complex(rng.randint(-6, 6), rng.randint(-6, 6)); th = rng.choice([90.0, 45.0, 120.0, -30.0])
                T = lambda z, c0=c0, th=th: c0 + (z - c0) * complex(math.cos(math.radians(th)), math.sin(math.radians(th)))
                cmd = "%scopyrotate(%s,%s,%s,1,3)" % (pre, n17(c0.real), n17(c0.imag), n17(th))
                want = (T(ca), T(cb))
            else:
                dz = complex(rng.choice([3.0, -2.5, 0.5]), rng.choice([4.0, -1.0, 0.25]))
                T = lambda z, dz=dz: z + dz
                cmd = "%scopytranslate(%s,%s,1,3)" % (pre, n17(dz.real), n17(dz.imag))
                want = (T(ca), T(cb))
            sc = ["newdocument(%d)" % DOC[kind], "%saddnode(%s,%s)" % (pre, n17(a[0]), n17(a[1])), "%saddnode(%s,%s)" % (pre, n17(b[0]), n17(b[1])),
                  "%saddarc(%s,%s,%s,%s,%s,5)" % (pre, n17(a[0]), n17(a[1]), n17(b[0]), n17(b[1]), n17(ang)),
                  "%sselectarcsegment(%s,%s)" % (pre, n17(mid.real), n17(mid.imag)), cmd, '%ssaveas("a%03d%s")' % (pre, t, femmio.EXT[kind])]
            lines += sc
            # the same images through Model/EditGeom.lean (Float instance, the CComplex operators in the order of the C++)
            if op == "mirror":
                mreq = ["mirror %s %s %s %s %s %s" % (d2tok(p0.real), d2tok(p0.imag), d2tok(p1.real), d2tok(p1.imag), d2tok(z_.real), d2tok(z_.imag)) for z_ in (ca, cb)]
            elif op == "copyrotate":
                mreq = ["rotate %s %s %s %s %s" % (d2tok(c0.real), d2tok(c0.imag), d2tok(th), d2tok(z_.real), d2tok(z_.imag)) for z_ in (ca, cb)]
            else:
                mreq = ["translate %s %s %s %s" % (d2tok(dz.real), d2tok(dz.imag), d2tok(z_.real), d2tok(z_.imag)) for z_ in (ca, cb)]
            cases.append((kind, op, sc, (ca, cb), want, ang, T(mid), mreq))
        open(os.path.join(d, "s.lua"), "w").write("\n".join(lines) + "\n")
        subprocess.run([os.path.join(build, "cfemm", "bin", "femmcli"), "--lua-script=s.lua"], cwd=d, stdout=subprocess.PIPE, stderr=subprocess.STDOUT,
                       text=True, timeout=600, errors="replace")
        mrep, _, _ = vlib.run_lines([mx, "editgeom"], [l_ for c_ in cases for l_ in c_[7]])
        for t, (kind, op, sc, orig, want, ang, tmid, mreq) in enumerate(cases):
            f = os.path.join(d, "a%03d%s" % (t, femmio.EXT[kind]))
            ck.case(("arc-copy", t, op, ang), nontrivial=True)
            stats["arc_copies_checked"] = stats.get("arc_copies_checked", 0) + 1
            if not os.path.exists(f):
                ck.violation("edit-crash:arc-copy", "femmcli did not save the drawing after %s of an arc" % op, dict(script="\n".join(sc)))
                continue
            D = load(f)
            Pn = [complex(n[0], n[1]) for n in D["nodes"]]
            arcs = [(Pn[a_[0]], Pn[a_[1]], a_[2]) for a_ in D["arcs"] if a_[0] < len(Pn) and a_[1] < len(Pn)]
            has = lambda w: any(abs(x[0] - w[0]) < 1e-9 and abs(x[1] - w[1]) < 1e-9 and abs(x[2] - ang) < 1e-9 for x in arcs)
            # ---- stage B: the end points of the copy are the model's images, bit for bit
            mimg = []
            for r_ in mrep[2 * t:2 * t + 2]:
                tk = r_.split()
                mimg.append((tok2d(tk[0]), tok2d(tk[1])) if len(tk) == 2 and tk[0] != "bad-op" else None)
            if None in mimg or len(mimg) != 2:
                ck.obligation_broken("correspondence editgeom: the model driver did not answer", dict(script="\n".join(sc)))
            else:
                have = {(n[0], n[1]) for n in D["nodes"]}
                stats["copy_images_vs_model"] = stats.get("copy_images_vs_model", 0) + 2
                miss = [q for q in mimg if q not in have]
                if miss:
                    near = min(have, key=lambda h_: math.hypot(h_[0] - miss[0][0], h_[1] - miss[0][1]))
                    ck.obligation_broken("correspondence editgeom: %s image of an arc end point: Model/EditGeom.lean gives (%r, %r), the saved drawing has (%r, %r) (%d / %d ulp apart)"
                                         % (op, miss[0][0], miss[0][1], near[0], near[1], vlib.ulp_diff(miss[0][0], near[0]), vlib.ulp_diff(miss[0][1], near[1])),
                                         dict(script="\n".join(sc)))
            if len(arcs) > 2:
                # the image crosses the original: both are split at the crossing (the clause on crossings, examined for lines above)
                stats["arc_copies_split_by_crossing"] = stats.get("arc_copies_split_by_crossing", 0) + 1
                continue
            if not (has(orig) and has(want)):
                ck.violation("copy-lands:arc:" + op, "%s of the %g degree arc (%g, %g) -> (%g, %g): the saved drawing holds the arcs %s; the image is the arc "
                             "(%.12g, %.12g) -> (%.12g, %.12g) through (%.12g, %.12g)" % (op, ang, orig[0].real, orig[0].imag, orig[1].real, orig[1].imag,
                             [("(%.9g, %.9g) -> (%.9g, %.9g), %g" % (x[0].real, x[0].imag, x[1].real, x[1].imag, x[2])) for x in arcs],
                             want[0].real, want[0].imag, want[1].real, want[1].imag, tmid.real, tmid.imag), dict(script="\n".join(sc)))
        # ================= a short arc drawn (or copied by rotation) across a long one, at several positions along the long arc and in both
        # senses: the crossing has to become a point where both arcs are split (the arc / arc intersection routine tests two candidate
        # points of the two circles against the spans of both arcs)
        d = os.path.join(work, "arcx")
        os.makedirs(d)
        lines, cases = [], []
        kx_ = 0
        for phi in (26.0, 70.0, 126.0, 160.0):
            for sense in (0, 1):
                for via in ("addarc", "copyrotate"):
                    kind = "meh"[kx_ % 3]
                    pre = PRE[kind]
                    Rb = rng.choice([1.0, 2.5])
                    c_, s_ = math.cos(math.radians(phi)), math.sin(math.radians(phi))
                    # end points on either side of the big circle, on a chord roughly across it
                    pin = (0.8 * Rb * math.cos(math.radians(phi - 6)), 0.8 * Rb * math.sin(math.radians(phi - 6)))
                    pout = (1.25 * Rb * math.cos(math.radians(phi + 5)), 1.25 * Rb * math.sin(math.radians(phi + 5)))
                    a_, b_ = (pin, pout) if sense == 0 else (pout, pin)
                    sc = ["newdocument(%d)" % DOC[kind], "%saddnode(%s,0)" % (pre, n17(Rb)), "%saddnode(%s,0)" % (pre, n17(-Rb)),
                          "%saddarc(%s,0,%s,0,180,5)" % (pre, n17(Rb), n17(-Rb))]
                    if via == "addarc":
                        sc += ["%saddnode(%s,%s)" % (pre, n17(a_[0]), n17(a_[1])), "%saddnode(%s,%s)" % (pre, n17(b_[0]), n17(b_[1])),
                               "%saddarc(%s,%s,%s,%s,40,5)" % (pre, n17(a_[0]), n17(a_[1]), n17(b_[0]), n17(b_[1]))]
                    else:
                        # the short arc is drawn below the axis (crossing nothing) and brought across the long one by a half turn about the origin
                        ra, rb_ = (-a_[0], -a_[1]), (-b_[0], -b_[1])
                        mid_ = ((ra[0] + rb_[0]) / 2, (ra[1] + rb_[1]) / 2)
                        sc += ["%saddnode(%s,%s)" % (pre, n17(ra[0]), n17(ra[1])), "%saddnode(%s,%s)" % (pre, n17(rb_[0]), n17(rb_[1])),
                               "%saddarc(%s,%s,%s,%s,40,5)" % (pre, n17(ra[0]), n17(ra[1]), n17(rb_[0]), n17(rb_[1])),
                               "%sselectarcsegment(%s,%s)" % (pre, n17(mid_[0]), n17(mid_[1])), "%scopyrotate(0,0,180,1,3)" % pre]
                    sc.append('%ssaveas("x%03d%s")' % (pre, kx_, femmio.EXT[kind]))
                    lines += sc
                    cases.append((kind, phi, sense, via, sc))
                    kx_ += 1
        open(os.path.join(d, "s.lua"), "w").write("\n".join(lines) + "\n")
        subprocess.run([os.path.join(build, "cfemm", "bin", "femmcli"), "--lua-script=s.lua"], cwd=d, stdout=subprocess.PIPE, stderr=subprocess.STDOUT,
                       text=True, timeout=600, errors="replace")
        for t, (kind, phi, sense, via, sc) in enumerate(cases):
            f = os.path.join(d, "x%03d%s" % (t, femmio.EXT[kind]))
            ck.case(("arc-crossing", phi, sense, via), nontrivial=True)
            stats["arc_crossings_checked"] = stats.get("arc_crossings_checked", 0) + 1
            if not os.path.exists(f):
                ck.violation("edit-crash:arc-crossing", "femmcli did not save the drawing after an arc was put across another (%s)" % via, dict(script="\n".join(sc)))
                continue
            Dx = load(f)
            bad = invariants(Dx)
            if bad:
                ck.violation("pslg:%s:%s" % (bad[0], via), "a 40 degree arc put across a half circle %g degrees along it (%s, sense %d, %s document): %s"
                             % (phi, via, sense, femmio.EXT[kind], bad[1]), dict(script="\n".join(sc), drawing=dict(nodes=Dx["nodes"], arcs=Dx["arcs"])))
        # ================= the arc made by create-radius inherits boundary condition and group of the lines it rounds (as the command says)
        d = os.path.join(work, "radius")
        os.makedirs(d)
        lines = []
        for kind in "meh":
            pre = PRE[kind]
            bp = {"m": '%saddboundprop("bX",0,0,0,0,0,0,0,0,0)', "e": '%saddboundprop("bX",1,0,0,0,0)', "h": '%saddboundprop("bX",0,300,0,0,0,0)'}[kind] % pre
            sp = '%ssetsegmentprop("bX",0,1,0,5)' % pre if kind == "m" else '%ssetsegmentprop("bX",0,1,0,5,"<None>")' % pre
            lines += ["newdocument(%d)" % DOC[kind], bp, "%saddnode(8,8)" % pre, "%saddnode(10,8)" % pre, "%saddnode(10,10)" % pre,
                      "%saddsegment(8,8,10,8)" % pre, "%saddsegment(10,8,10,10)" % pre, "%sselectsegment(9,8)" % pre, "%sselectsegment(10,9)" % pre, sp,
                      "%sclearselected()" % pre, "%screateradius(10,8,0.5)" % pre, '%ssaveas("r%s")' % (pre, femmio.EXT[kind])]
        open(os.path.join(d, "s.lua"), "w").write("\n".join(lines) + "\n")
        subprocess.run([os.path.join(build, "cfemm", "bin", "femmcli"), "--lua-script=s.lua"], cwd=d, stdout=subprocess.PIPE, stderr=subprocess.STDOUT,
                       text=True, timeout=300, errors="replace")
        for kind in "meh":
            f = os.path.join(d, "r" + femmio.EXT[kind])
            ck.case(("radius-inherits", kind), nontrivial=True)
            if not os.path.exists(f):
                ck.violation("edit-crash:createradius", "femmcli did not save the drawing after create-radius (%s)" % femmio.EXT[kind], dict(script="\n".join(lines)))
                continue
            g = femmio.read_problem(f)["geom"]
            arcs = g.get("arcs", [])
            segs = g.get("segs", [])
            stats["radius_arcs_checked"] = stats.get("radius_arcs_checked", 0) + 1
            if len(arcs) != 1 or any(int(r_[3]) != 1 for r_ in segs) or int(arcs[0][4]) != 1 or int(arcs[0][6]) != 5:
                ck.violation("copy-keeps:createradius:" + kind, "create-radius on a corner of two lines that carry the boundary property 'bX' (index 1) and group 5: the saved "
                             "%s file has the lines %s and the arc %s (columns of an arc: n0 n1 angle max-segment boundary hidden group ...) - the arc that rounds "
                             "the corner does not carry the lines' boundary property and group" % (femmio.EXT[kind], [r_[:6] for r_ in segs], arcs[:2]),
                             dict(script="\n".join(lines)))
    finally:
        shutil.rmtree(work, ignore_errors=True)
    ck.notes["input_distribution"] = stats
    return ck.finish()
