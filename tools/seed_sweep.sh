#!/bin/bash
# re-verify every stored seed: apply seeded/<id>/patch.diff to the repository ($XFEMM_REPO, default /repo; under `vp run --with-repo` the
# run's own snapshot $VP_RUN_REPO), run the quick tier of the checks named in meta.json "caught_by", revert.  One line per seed:
#   <id> <check>=<number of VIOLATION lines> ...      (0 = MISSED)
# usage: tools/seed_sweep.sh [seed-id ...]
HERE="$(cd "$(dirname "$0")/.." && pwd)"; cd "$HERE"
[ -n "${VP_RUN_REPO:-}" ] && export XFEMM_REPO="$VP_RUN_REPO"
REPO="${XFEMM_REPO:-/repo}"
(cd lean && lake build >/dev/null 2>&1)
IDS="${@:-$(ls seeded)}"
for ID in $IDS; do
  [ -f "seeded/$ID/patch.diff" ] || continue
  git -C "$REPO" checkout -- . 2>/dev/null
  if ! git -C "$REPO" apply "$HERE/seeded/$ID/patch.diff" 2>/dev/null; then echo "$ID PATCH-DOES-NOT-APPLY"; continue; fi
  CH=$(python3 -c "import json,sys; m=json.load(open('seeded/$ID/meta.json')); c=m.get('caught_by') or [m.get('breaks_property')]; print(' '.join(c if isinstance(c,list) else [c]))" 2>/dev/null)
  OUT="$ID"
  for P in $CH; do
    N=$(python3 tools/check.py "$P" --tier quick 2>&1 | grep -c '^VIOLATION')
    OUT="$OUT $P=$N"
  done
  echo "$OUT"
  git -C "$REPO" checkout -- .
done
echo SWEEP-DONE
