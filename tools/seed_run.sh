#!/bin/bash
# run registered checks against a seeded change: apply seeded/<id>/patch.diff to /repo, run, undo.
#   usage: seed_run.sh <seed-id> <property-id>...     (prints the last lines of each check)
ID="$1"; shift
ROOT="$(cd "$(dirname "$0")/.." && pwd)"
git -C /repo status --porcelain --untracked-files=no | grep -q . && { echo "/repo has uncommitted changes"; exit 2; }
git -C /repo apply "$ROOT/seeded/$ID/patch.diff" || { echo "patch does not apply"; exit 2; }
for P in "$@"; do
  echo "---- $P against $ID"
  python3 "$ROOT/tools/check.py" "$P" --tier quick 2>&1 | grep -E "VIOLATION|KNOWN|what:|no longer|^C[0-9]+ " | head -8
done
git -C /repo checkout -- .
