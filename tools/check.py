#!/usr/bin/env python3
"""single entry point:  tools/check.py C09 [--tier quick|thorough] [--replay file]"""
import importlib, os, sys, traceback
HERE = os.path.dirname(os.path.abspath(__file__))
ROOT = os.path.dirname(HERE)
VT = "/opt/veriftools/pyvenv/bin/python3"
if os.path.exists(VT) and not sys.prefix.startswith("/opt/veriftools/pyvenv") and not os.environ.get("XFEMM_VERIF_NOREEXEC"):
    os.environ["XFEMM_VERIF_NOREEXEC"] = "1"
    os.execv(VT, [VT] + sys.argv)
sys.path.insert(0, HERE)
sys.path.insert(0, ROOT)
import vlib


def main():
    if len(sys.argv) < 2:
        print(__doc__)
        return 2
    pid = sys.argv[1]
    mod = importlib.import_module("checks." + pid)
    try:
        return mod.main(sys.argv[2:])
    except vlib.BuildError as e:
        # the current tree (or the harness against it) does not build: not a property verdict
        print("ERROR: %s" % e)
        return 2
    except Exception:
        traceback.print_exc()
        return 2


if __name__ == "__main__":
    sys.exit(main())
