#!/bin/bash
# confirm a seeded change in a scratch worktree: (1) builds, (2) the 34 baseline tests pass with it,
# (3) its demonstration fails with it and (4) passes without it.   usage: confirm_seed.sh <worktree>
WT="$1"; cd "$WT" || exit 2
build() { cmake -G Ninja -S cfemm -B _build -DCMAKE_BUILD_TYPE=RelWithDebInfo -DCMAKE_CXX_FLAGS=-Wno-error -DENABLE_HAIRTRIGGER_TESTS=ON >/dev/null 2>&1 && cmake --build _build -j16 2>&1 | tail -1; }
echo "== with change: build"; build || { echo BUILD-FAILED; exit 1; }
echo "== with change: suite"; ctest --test-dir _build -j8 --timeout 900 2>&1 | grep -E "tests passed|\(Failed\)|SEGFAULT|Timeout"
echo "== with change: demo"; (cd demo && bash ./run.sh >/tmp/demo_with.log 2>&1; echo "demo rc=$?"; tail -3 /tmp/demo_with.log)
git stash push -q -- cfemm || exit 3
echo "== without change: build"; build
echo "== without change: demo"; (cd demo && bash ./run.sh >/tmp/demo_without.log 2>&1; echo "demo rc=$?"; tail -3 /tmp/demo_without.log)
git stash pop -q
git diff --stat -- cfemm | tail -1
