#!/bin/bash
# confirm a seeded change in a scratch worktree: (1) builds, (2) the 34 baseline tests pass with it,
# (3) its demonstration fails with it and (4) passes without it.   usage: confirm_seed.sh <worktree>
WT="$1"; cd "$WT" || exit 2
build() { cmake -G Ninja -S cfemm -B _build -DCMAKE_BUILD_TYPE=RelWithDebInfo -DCMAKE_CXX_FLAGS=-Wno-error -DENABLE_HAIRTRIGGER_TESTS=ON >/dev/null 2>&1 && cmake --build _build -j16 2>&1 | tail -1; }
echo "== with change: build"; build || { echo BUILD-FAILED; exit 1; }
echo "== with change: suite"; ctest --test-dir _build -j8 --timeout 900 2>&1 | grep -E "tests passed|\(Failed\)|SEGFAULT|Timeout"
echo "== with change: demo"; (cd demo && bash ./run.sh >/tmp/demo_with.log 2>&1; echo "demo rc=$?"; tail -3 /tmp/demo_with.log)
# (no `git stash`: the stash ref is shared by all worktrees of a repository - two seeding agents once swapped changes through it)
git diff -- cfemm > "$WT/.seed.patch" && git apply -R "$WT/.seed.patch" || exit 3
echo "== without change: build"; build
echo "== without change: demo"; (cd demo && bash ./run.sh >/tmp/demo_without.log 2>&1; echo "demo rc=$?"; tail -3 /tmp/demo_without.log)
git apply "$WT/.seed.patch" && rm -f "$WT/.seed.patch"
git diff --stat -- cfemm | tail -1
