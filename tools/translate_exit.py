#!/usr/bin/env python3
"""translator `errs` (C20): regenerates lean/XfemmVerif/Generated/ExitTable.lean from the CURRENT source tree.

Extracted (regex over the source text; refuses — raises TranslateError — when a pattern is gone):
  * enum LoadMeshErr (feasolver.h) and enum ParserResult (FemmReader.h), in order
  * per solver main.cpp: exit code after a failed LoadProblemFile, after a failed runSolver, final return
  * fmesher/main.cpp: `return status` on parse failure, codes after failed periodic / non-periodic triangulation
  * per solver LoadMesh: the ordered list (file extension opened, error returned when fopen fails)
  * per solver runSolver: what is returned when LoadMesh reports an error, when AnalyzeProblem / WriteResults fail
    (the C++ expression, classified as falsy / truthy when converted to bool)
"""
import os, re, sys


class TranslateError(Exception):
    pass


def read(root, rel):
    with open(os.path.join(root, rel), errors="replace") as f:
        return f.read()


def strip_comments(s):
    s = re.sub(r"/\*.*?\*/", "", s, flags=re.S)
    return re.sub(r"//[^\n]*", "", s)


def func_body(src, signature_regex):
    m = re.search(signature_regex, src)
    if not m:
        raise TranslateError("function not found: " + signature_regex)
    i = src.index("{", m.end() - 1)
    depth = 0
    for j in range(i, len(src)):
        if src[j] == "{":
            depth += 1
        elif src[j] == "}":
            depth -= 1
            if depth == 0:
                return src[i:j + 1]
    raise TranslateError("unbalanced braces after " + signature_regex)


def enum_list(src, name):
    m = re.search(r"enum\s+%s\s*\{([^}]*)\}" % name, src)
    if not m:
        raise TranslateError("enum %s not found" % name)
    return [t.strip().split("=")[0].strip() for t in m.group(1).split(",") if t.strip()]


def truthiness(expr, enums):
    """C++ value converted to bool / int: returns ('int', n)"""
    e = expr.strip()
    if e in ("true", "TRUE"):
        return 1
    if e in ("false", "FALSE"):
        return 0
    if re.fullmatch(r"-?\d+", e):
        return int(e)
    for en in enums:
        if e in en:
            return en.index(e)
    raise TranslateError("cannot evaluate return expression %r" % e)


def solver_main(src, loadfn="LoadProblemFile"):
    s = strip_comments(src)
    m1 = re.search(r"if\s*\(\s*\w+\.LoadProblemFile\s*\(\s*\)\s*!=\s*true\s*\)\s*\{[^}]*?return\s+(-?\d+)\s*;", s, re.S)
    m2 = re.search(r"if\s*\(\s*!\s*\w+\.runSolver\s*\(\s*true\s*\)\s*\)\s*(?:\{\s*)?return\s+(-?\d+)\s*;", s, re.S)
    m3 = re.findall(r"return\s+(-?\d+)\s*;", s)
    if not (m1 and m2 and m3):
        raise TranslateError("solver main(): exit-code pattern not found")
    return int(m1.group(1)), int(m2.group(1)), int(m3[-1])


def loadmesh_table(src, cls):
    body = strip_comments(func_body(src, r"LoadMeshErr\s+%s::LoadMesh\s*\(" % cls))
    # before the first file is opened nothing may return; collect (ext, err) for every fopen(...)==NULL guard
    out = []
    for m in re.finditer(r'if\s*\(\s*\(\s*fp\s*=\s*fopen\s*\(\s*infile\s*,\s*"rt"\s*\)\s*\)\s*==\s*NULL\s*\)\s*\{?\s*return\s+(\w+)\s*;', body, re.S):
        prev = list(re.finditer(r'sprintf\s*\(\s*infile\s*,\s*"%s\.(\w+)"', body[:m.start()]))
        if not prev:
            raise TranslateError("%s::LoadMesh: fopen(infile) without a preceding sprintf(infile, ...)" % cls)
        out.append((prev[-1].group(1), m.group(1)))
    if len(out) < 4:
        raise TranslateError("%s::LoadMesh: expected >= 4 guarded fopen calls, found %d" % (cls, len(out)))
    return out


def run_solver(src, cls, enums):
    body = strip_comments(func_body(src, r"bool\s+%s::runSolver\s*\(" % cls))
    m = re.search(r"LoadMeshErr\s+err\s*=\s*LoadMesh\s*\([^)]*\)\s*;\s*if\s*\(\s*err\s*!=\s*NOERROR\s*\)\s*\{(.*?)\}", body, re.S)
    if not m:
        raise TranslateError("%s::runSolver: LoadMesh guard not found" % cls)
    r = re.search(r"return\s+([^;]+);", m.group(1))
    if not r:
        raise TranslateError("%s::runSolver: LoadMesh guard does not return" % cls)
    res = dict(loadmesh=truthiness(r.group(1), enums))
    w = re.search(r"if\s*\(\s*!\s*WriteResults\s*\([^)]*\)\s*\)\s*\{(.*?)\}", body, re.S)
    if w:
        r = re.search(r"return\s+([^;]+);", w.group(1))
        res["write"] = truthiness(r.group(1), enums) if r else None
    a = re.search(r"if\s*\(\s*!\s*AnalyzeProblem\s*\([^)]*\)\s*\)\s*\{(.*?)\}", body, re.S)
    if a:
        r = re.search(r"return\s+([^;]+);", a.group(1))
        res["analyze"] = truthiness(r.group(1), enums) if r else None
    # hsolver: previous-solution guard.  Recognised shapes:
    #   if (!LoadPrev() && verbose) {...}          -> result ignored           (prev = None)
    #   if (LoadPrev() != <ok-expr>) {... return X} / if (!LoadPrev()) {... return X}
    if "LoadPrev" in body:
        g = re.search(r"if\s*\(([^{;]*LoadPrev\s*\(\s*\)[^{;]*)\)\s*\{(.*?)\}", body, re.S)
        res["prev_guard"] = None
        if g:
            r = re.search(r"return\s+([^;]+);", g.group(2))
            if r:
                res["prev_guard"] = truthiness(r.group(1), enums)
    last = re.findall(r"return\s+([^;]+);", body)
    res["final"] = truthiness(last[-1], enums)
    return res


def lean_str(s):
    return '"' + s.replace("\\", "\\\\").replace('"', '\\"') + '"'


def generate(root):
    cf = os.path.join(root, "cfemm")
    lme = enum_list(read(cf, "libfemm/feasolver.h"), "LoadMeshErr")
    pres = enum_list(read(cf, "libfemm/FemmReader.h"), "ParserResult")
    enums = [lme, pres]
    tools = {}
    for t, cls, d in (("fsolver", "FSolver", "fsolver"), ("esolver", "ESolver", "esolver"), ("hsolver", "HSolver", "hsolver")):
        main = solver_main(read(cf, d + "/main.cpp"))
        src = read(cf, "%s/%s.cpp" % (d, d))
        lm = loadmesh_table(src, cls)
        rs = run_solver(src, cls, enums)
        tools[t] = dict(main=main, loadmesh=lm, run=rs)
    fm = strip_comments(read(cf, "fmesher/main.cpp"))
    if not re.search(r"if\s*\(\s*status\s*!=\s*F_FILE_OK\s*\)\s*\{\s*return\s+status\s*;", fm):
        raise TranslateError("fmesher main(): parse-status guard not found")
    mp = re.search(r"DoPeriodicBCTriangulation\s*\([^)]*\)\s*!=\s*0\s*\)\s*\{\s*return\s+(-?\d+)\s*;", fm)
    mn = re.search(r"DoNonPeriodicBCTriangulation\s*\([^)]*\)\s*!=\s*0\s*\)\s*\{\s*return\s+(-?\d+)\s*;", fm)
    if not (mp and mn):
        raise TranslateError("fmesher main(): triangulation guards not found")
    L = []
    L.append("/- GENERATED by tools/translate_exit.py from the current /repo working tree — do not edit. -/")
    L.append("namespace XfemmVerif.Generated.ExitTable")
    L.append("")
    L.append("/-- `enum LoadMeshErr` in declaration order (value = position) -/")
    L.append("def loadMeshErr : List String := [%s]" % ", ".join(lean_str(x) for x in lme))
    L.append("/-- `enum ParserResult` in declaration order -/")
    L.append("def parserResult : List String := [%s]" % ", ".join(lean_str(x) for x in pres))
    L.append("")
    L.append("structure SolverTable where")
    L.append("  exitLoadProblemFailed : Int")
    L.append("  exitRunFailed : Int")
    L.append("  exitOk : Int")
    L.append("  /-- guarded `fopen`s of `LoadMesh` in order: (extension, error returned) -/")
    L.append("  loadMesh : List (String × String)")
    L.append("  /-- value `runSolver` returns (as int; converted to bool by the caller) when `LoadMesh` failed -/")
    L.append("  runOnLoadMeshErr : Int")
    L.append("  runOnAnalyzeFail : Option Int")
    L.append("  runOnWriteFail : Option Int")
    L.append("  /-- `some v`: `runSolver` returns `v` when the previous solution cannot be loaded; `none`: no such guard -/")
    L.append("  runOnPrevFail : Option Int")
    L.append("  hasPrev : Bool")
    L.append("  runFinal : Int")
    L.append("")
    for t in ("fsolver", "esolver", "hsolver"):
        d = tools[t]
        rs = d["run"]

        def opt(v):
            return "none" if v is None else "some (%d)" % v
        L.append("def %s : SolverTable :=" % t)
        L.append("  { exitLoadProblemFailed := %d, exitRunFailed := %d, exitOk := %d," % d["main"])
        L.append("    loadMesh := [%s]," % ", ".join("(%s, %s)" % (lean_str(a), lean_str(b)) for a, b in d["loadmesh"]))
        L.append("    runOnLoadMeshErr := %d, runOnAnalyzeFail := %s, runOnWriteFail := %s," % (rs["loadmesh"], opt(rs.get("analyze")), opt(rs.get("write"))))
        L.append("    runOnPrevFail := %s, hasPrev := %s, runFinal := %d }" % (opt(rs.get("prev_guard")), "true" if "prev_guard" in rs else "false", rs["final"]))
        L.append("")
    L.append("def fmesherExitPeriodicFailed : Int := %d" % int(mp.group(1)))
    L.append("def fmesherExitNonPeriodicFailed : Int := %d" % int(mn.group(1)))
    L.append("")
    L.append("end XfemmVerif.Generated.ExitTable")
    return "\n".join(L) + "\n"


if __name__ == "__main__":
    root = sys.argv[1] if len(sys.argv) > 1 else "/repo"
    sys.stdout.write(generate(root))
