#!/usr/bin/env python3
"""translator `filekeys` (C14): regenerates lean/XfemmVerif/Generated/FileKeys.lean from the CURRENT source tree.

For every property class of the three file types it extracts
  reads   (lower-case key, field)  from  <Class>::fromStream      `if( token == "<key>" ) { … parseValue/parseString(input, [&]prop.FIELD …`
  writes  (lower-case key, field)  from  <Class>::toStream        `out << "    <Key> = " << FIELD << "\\n"`
  copy    (field, source)          for every field read: what the chain of copy constructors puts there
          (a class without an explicit copy constructor copies every member it declares; an explicit one copies what it
          assigns from `other`, and its bases only if it calls the base copy constructor)
and for the problem-level keys, per file type,
  topReads    keys that FemmReader::parse / <X>Reader::handleToken store into the problem ("ignored" for keys the reader
              swallows with a warning)
  topWrites   keys that FemmProblem::writeProblemDescription writes (its `if (filetype …)` structure is evaluated per type)
and the stream precision.  Refuses (TranslateError) when an expected function is gone."""
import os, re, sys


class TranslateError(Exception):
    pass


def strip_comments(s):
    s = re.sub(r"/\*.*?\*/", "", s, flags=re.S)
    return re.sub(r"//[^\n]*", "", s)


def balanced(src, i, op="{", cl="}"):
    d = 0
    for j in range(i, len(src)):
        if src[j] == op:
            d += 1
        elif src[j] == cl:
            d -= 1
            if d == 0:
                return j
    raise TranslateError("unbalanced %s%s" % (op, cl))


def func_body(src, pat, what):
    m = re.search(pat, src)
    if not m:
        raise TranslateError("function not found: " + what)
    i = src.index("{", m.end() - 1)
    return src[m.start():i], src[i:balanced(src, i) + 1]


CLASSES = [  # (class, file, header, bases in order most-derived -> root)
    ("CMPointProp", "CPointProp", ["CMPointProp", "CPointProp"]),
    ("CHPointProp", "CPointProp", ["CHPointProp", "CPointProp"]),
    ("CSPointProp", "CPointProp", ["CSPointProp", "CPointProp"]),
    ("CMBoundaryProp", "CBoundaryProp", ["CMBoundaryProp", "CBoundaryProp"]),
    ("CHBoundaryProp", "CBoundaryProp", ["CHBoundaryProp", "CBoundaryProp"]),
    ("CSBoundaryProp", "CBoundaryProp", ["CSBoundaryProp", "CBoundaryProp"]),
    ("CMSolverMaterialProp", "CMaterialProp", ["CMSolverMaterialProp", "CMMaterialProp", "CMaterialProp"]),
    ("CHMaterialProp", "CMaterialProp", ["CHMaterialProp", "CMaterialProp"]),
    ("CSMaterialProp", "CMaterialProp", ["CSMaterialProp", "CMaterialProp"]),
    ("CMCircuit", "CCircuit", ["CMCircuit", "CCircuit"]),
    ("CHConductor", "CCircuit", ["CHConductor", "CCircuit"]),
    ("CSCircuit", "CCircuit", ["CSCircuit", "CCircuit"]),
]


def class_reads(src, cls):
    _, body = func_body(src, r"\b%s\s+%s::fromStream\s*\(" % (cls, cls), cls + "::fromStream")
    out = []
    for m in re.finditer(r'token\s*==\s*"(<[^"]+>)"\s*\)\s*\{(.*?)continue\s*;', body, re.S):
        key, blk = m.group(1), m.group(2)
        if key.startswith("<begin") or key.startswith("<end"):
            continue
        f = re.search(r'parse(?:Value|String)\s*\(\s*input\s*,\s*&?\s*\(?\s*prop\.([\w.]+)', blk)
        if not f:
            raise TranslateError("%s::fromStream: key %s does not store into a field of prop" % (cls, key))
        out.append((key.lower(), f.group(1)))
    if not out:
        raise TranslateError("%s::fromStream: no keys found" % cls)
    return out


def class_writes(src, cls):
    _, body = func_body(src, r"void\s+%s::toStream\s*\([^)]*\)\s*const" % cls, cls + "::toStream")
    out = []
    for m in re.finditer(r'out\s*<<\s*"\s*(<[^>"]+>)\s*=\s*(?:\\")?"\s*<<\s*([^;]+?)\s*<<\s*"', body):
        out.append((m.group(1).lower(), re.sub(r"\s+", "", m.group(2))))
    if not out:
        raise TranslateError("%s::toStream: no keys found" % cls)
    return out


def header_class_body(hdr, cls):
    m = re.search(r"\bclass\s+%s\b[^;{]*\{" % cls, hdr)
    if not m:
        raise TranslateError("class %s not found in header" % cls)
    i = m.end() - 1
    return hdr[i:balanced(hdr, i) + 1]


def declares(body, field):
    base = field.split(".")[0]
    return re.search(r"[\s,*&]%s\s*(\[[^\]]*\])?\s*[;,=]" % re.escape(base), body) is not None


def copy_level(src, cls):
    """None if the class has no explicit copy constructor, else (calls_base_copy, {field: source})"""
    m = re.search(r"\b%s::%s\s*\(\s*const\s+(?:\w+::)?%s\s*&\s*(\w+)\s*\)" % (cls, cls, cls), src)
    if not m:
        return None
    other = m.group(1)
    i = src.index("{", m.end())
    init = src[m.end():i]
    body = src[i:balanced(src, i) + 1]
    calls_base = re.search(r":\s*(?:\w+::)?\w+\s*\(\s*%s\s*\)" % other, init) is not None
    amap = {}
    for a in re.finditer(r"\b([\w.]+)\s*=\s*%s\.([\w.]+)\s*;" % other, body):
        amap[a.group(1)] = a.group(2)
    for a in re.finditer(r"[,:]\s*(\w+)\s*\(\s*%s\.([\w.]+)\s*\)" % other, init):
        amap[a.group(1)] = a.group(2)
    # element-wise array copies  X[i] = other.X[i]
    for a in re.finditer(r"\b(\w+)\s*\[\s*\w+\s*\]\s*=\s*%s\.(\w+)\s*\[" % other, body):
        amap[a.group(1)] = a.group(2)
    return calls_base, amap


def copy_map(src, hdr, chain, fields):
    """for every field read: the source the copy-constructor chain takes it from ('' = not copied)"""
    out = []
    bodies = {c: header_class_body(hdr, c) for c in chain}
    levels = {c: copy_level(src, c) for c in chain}
    for f in fields:
        base = f.split(".")[0]
        owner = next((c for c in chain if declares(bodies[c], f)), None)
        if owner is None:
            raise TranslateError("field %s not declared in any of %s" % (f, chain))
        # walk from the most derived class down to the owner: is the owner's level reached with copy semantics?
        source = None
        reached = True
        for c in chain:
            lv = levels[c]
            if lv is None:
                # implicit copy ctor: copies own members, calls base copy ctors
                if c == owner:
                    source = f
                    break
                continue
            calls_base, amap = lv
            if base in amap or f in amap:
                src_f = amap.get(f, None)
                if src_f is None:
                    src_f = amap[base] + f[len(base):]
                source = src_f
                break
            if c == owner:
                source = ""
                break
            if not calls_base:
                reached = False
                break
        if not reached or source is None:
            source = ""
        out.append((f, source))
    return out


def eval_writes(body, ft):
    """keys written by writeProblemDescription for file type ft ('m', 'h', 'e'): evaluates its if(filetype…) structure"""
    keys = []

    def cond_value(c):
        c2 = c
        for name, k in (("MagneticsFile", "m"), ("HeatFlowFile", "h"), ("ElectrostaticsFile", "e")):
            c2 = re.sub(r"filetype\s*==\s*(?:\w+::)*%s" % name, " (FT=='%s') " % k, c2)
            c2 = re.sub(r"filetype\s*!=\s*(?:\w+::)*%s" % name, " (FT!='%s') " % k, c2)
        c2 = " ".join(c2.replace("||", " or ").replace("&&", " and ").split())
        if re.search(r"[A-Za-z_]\w*", re.sub(r"FT|or|and|'[mhe]'", "", c2)):
            return None
        return eval(c2, {"FT": ft})

    def stmt_end(s, k):
        """end index (exclusive) of the statement starting at s[k] (block, if-statement or simple statement)"""
        while s[k].isspace():
            k += 1
        if s[k] == "{":
            return balanced(s, k) + 1
        m = re.compile(r"if\s*\(").match(s, k)
        if m:
            j = balanced(s, m.end() - 1, "(", ")")
            e = stmt_end(s, j + 1)
            m2 = re.compile(r"\s*else\b").match(s, e)
            if m2:
                e = stmt_end(s, m2.end())
            return e
        return s.index(";", k) + 1

    def unbrace(t):
        t = t.strip()
        return t[1:-1] if t.startswith("{") else t

    def walk(s):
        i = 0
        while i < len(s):
            m = re.compile(r"\bif\s*\(").search(s, i)
            lit_end = m.start() if m else len(s)
            for k in re.finditer(r'"(\[[A-Za-z]+\])', s[i:lit_end]):
                keys.append(k.group(1).lower())
            if not m:
                break
            j = balanced(s, m.end() - 1, "(", ")")
            cond = s[m.end():j]
            e = stmt_end(s, j + 1)
            then = unbrace(s[j + 1:e])
            nxt = e
            els = ""
            m2 = re.compile(r"\s*else\b").match(s, nxt)
            if m2:
                e2 = stmt_end(s, m2.end())
                els = unbrace(s[m2.end():e2])
                nxt = e2
            v = cond_value(cond)
            if v is None:
                walk(then)
                walk(els)
            elif v:
                walk(then)
            else:
                walk(els)
            i = nxt
    walk(body[1:-1])
    # the circuit header is written through a variable
    out = []
    for k in keys:
        if k not in out:
            out.append(k)
    return out


def top_reads(rsrc, ft):
    _, body = func_body(rsrc, r"::parse\s*\(\s*const\s+std::string\s*&\s*file\s*\)", "FemmReader::parse")
    reader = {"m": "MagneticsReader", "h": "HeatFlowReader", "e": "ElectrostaticsReader"}[ft]
    try:
        _, hbody = func_body(rsrc, r"bool\s+%s::handleToken\s*\(" % reader, reader + "::handleToken")
    except TranslateError:
        hbody = "{}"
    out = []
    seen = set()
    for src_body, stop in ((hbody, r"return\s+true\s*;"), (body, r"continue\s*;")):
        for m in re.finditer(r'if\s*\(((?:\s*token\s*==\s*"\[[^"]+\]"\s*(?:\|\|)?)+)\)\s*\{(.*?)' + stop, src_body, re.S):
            blk = m.group(2)
            f = re.search(r"problem->(\w+)", blk)
            for key in re.findall(r'"(\[[^"]+\])"', m.group(1)):
                key = key.lower()
                if key in seen:
                    continue
                seen.add(key)
                out.append((key, f.group(1) if f else "ignored"))
    return out


def lean_pairs(ps):
    return "[" + ", ".join('("%s", "%s")' % p for p in ps) + "]"


def generate(root):
    cf = os.path.join(root, "cfemm", "libfemm")
    out = ["/- GENERATED by tools/translate_filekeys.py from the current /repo working tree — do not edit. -/",
           "namespace XfemmVerif.Generated.FileKeys", "",
           "structure ClassMaps where",
           "  name : String",
           "  reads : List (String × String)",
           "  writes : List (String × String)",
           "  copy : List (String × String)", ""]
    names = []
    for cls, f, chain in CLASSES:
        src = strip_comments(open(os.path.join(cf, f + ".cpp"), errors="replace").read())
        hdr = strip_comments(open(os.path.join(cf, f + ".h"), errors="replace").read())
        rd = class_reads(src, cls)
        wr = class_writes(src, cls)
        cp = copy_map(src, hdr, chain, [fld for _, fld in rd])
        nm = cls[0].lower() + cls[1:]
        names.append(nm)
        out.append('def %s : ClassMaps := { name := "%s", reads := %s, writes := %s, copy := %s }'
                   % (nm, cls, lean_pairs(rd), lean_pairs(wr), lean_pairs(cp)))
    out.append("")
    out.append("def classes : List ClassMaps := [%s]" % ", ".join(names))
    out.append("")
    rsrc = strip_comments(open(os.path.join(cf, "FemmReader.cpp"), errors="replace").read())
    psrc = strip_comments(open(os.path.join(cf, "FemmProblem.cpp"), errors="replace").read())
    _, wbody = func_body(psrc, r"void\s+femm::FemmProblem::writeProblemDescription\s*\(", "FemmProblem::writeProblemDescription")
    for ft, nm in (("m", "magnetics"), ("h", "heat"), ("e", "electrostatics")):
        out.append("def %sTopReads : List (String × String) := %s" % (nm, lean_pairs(top_reads(rsrc, ft))))
        ws = eval_writes(wbody, ft)
        out.append("def %sTopWrites : List String := [%s]" % (nm, ", ".join('"%s"' % k for k in ws)))
    m = re.search(r"setprecision\s*\(\s*(\d+)\s*\)", wbody)
    if not m:
        raise TranslateError("writeProblemDescription: setprecision(N) not found")
    out.append("")
    out.append("/-- significant digits the writer asks of the stream -/")
    out.append("def streamPrecision : Nat := %s" % m.group(1))
    out.append("")
    out.append("end XfemmVerif.Generated.FileKeys")
    return "\n".join(out) + "\n"


if __name__ == "__main__":
    sys.stdout.write(generate(sys.argv[1] if len(sys.argv) > 1 else "/repo"))
