#!/bin/bash
# Build a scratch COPY of /repo's current working tree (never /repo itself:
# the top-level CMakeLists forces binaries into <source>/bin).
#   usage: build_repo.sh <flavour>      flavour = plain | san | off
#   prints the scratch root (contains cfemm/bin, _b/…/lib*.a) on the last line.
# plain: -O2 -DXFEMM_VERIF ; san: ASan+UBSan on C++ only, -DXFEMM_VERIF ;
# off: guard off (used by hooks.baseline_off_cmd).
# Cached by a SHA-256 over the sources; at most 3 trees per flavour are kept (trees in use are never removed).
set -euo pipefail
FLAVOUR="${1:-plain}"
REPO="${XFEMM_REPO:-/repo}"
SCRATCH="${XFEMM_VERIF_SCRATCH:-/var/tmp/xfemm_verif}"
mkdir -p "$SCRATCH"
exec 9>"$SCRATCH/.lock.$FLAVOUR"
flock 9
HASH=$( (cd "$REPO" && find cfemm README.md -type f \
          -not -path 'cfemm/bin/*' -not -path 'cfemm/build/*' \
          -not -name '*.o' -not -name 'femmversion.h' -print0 \
          | sort -z | xargs -0 sha256sum) | sha256sum | cut -c1-16)
DIR="$SCRATCH/$FLAVOUR-$HASH"
if [ -f "$DIR/.ok" ]; then touch "$DIR/.ok"; echo "$DIR"; exit 0; fi
rm -rf "$DIR"; mkdir -p "$DIR"
rsync -a --exclude '/cfemm/bin' --exclude '/cfemm/build' --exclude '*.o' \
      "$REPO/cfemm" "$REPO/README.md" "$DIR/"
case "$FLAVOUR" in
  plain) CXXF="-DXFEMM_VERIF"; BT=RelWithDebInfo; LDF="";;
  san)   CXXF="-DXFEMM_VERIF -O1 -g1 -fsanitize=address,undefined -fno-sanitize-recover=all -fno-omit-frame-pointer"; BT=None
         LDF="-fsanitize=address,undefined";;
  off)   CXXF=""; BT=RelWithDebInfo; LDF="";;
  *) echo "unknown flavour $FLAVOUR" >&2; exit 2;;
esac
{
cmake -G Ninja -S "$DIR/cfemm" -B "$DIR/_b" -DCMAKE_BUILD_TYPE=$BT \
      -DCMAKE_CXX_FLAGS="-Wno-error -w" -DEXTRA_CMAKE_CXX_FLAGS="$CXXF" \
      -DCMAKE_EXE_LINKER_FLAGS="$LDF" -DCMAKE_C_FLAGS="-w" -DENABLE_HAIRTRIGGER_TESTS=ON \
  && cmake --build "$DIR/_b" -j"${XFEMM_VERIF_JOBS:-16}"
} >"$DIR/build.log" 2>&1 || { echo "BUILD FAILED, see $DIR/build.log" >&2; tail -30 "$DIR/build.log" >&2; exit 3; }
touch "$DIR/.ok"
# keep at most 3 trees of this flavour, and never remove one that was used within the last 30 minutes (another check may be running on it)
for OLD in $(ls -dt "$SCRATCH/$FLAVOUR"-* 2>/dev/null | tail -n +4); do
  [ -n "$(find "$OLD/.ok" -mmin +30 2>/dev/null)" ] && rm -rf "$OLD"
done
echo "$DIR"
