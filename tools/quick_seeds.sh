#!/bin/bash
# run every quick tier at several seeds (default 3 4 5 6) and print only the runs that are not "ok"; meant for `vp run --with-repo`
# (evidence files are rewritten by every run, so do not use it in /verif itself before committing evidence)
HERE="$(cd "$(dirname "$0")/.." && pwd)"; cd "$HERE"
[ -n "${VP_RUN_REPO:-}" ] && export XFEMM_REPO="$VP_RUN_REPO"
(cd lean && lake build >/dev/null 2>&1)
for sd in ${@:-3 4 5 6}; do
  for c in C01 C02 C03 C04 C05 C06 C07 C08 C09 C10 C11 C12 C13 C14 C15 C16 C17 C18 C19 C20; do
    R=$(VERIF_SEED=$sd python3 tools/check.py $c --tier quick 2>&1 | grep -v "^KNOWN" | tail -2 | tr '\n' ' ' | cut -c1-500)
    case "$R" in *" ok tier"*) ;; *) echo "seed $sd: $R";; esac
  done
  echo "seed $sd done"
done
echo SEEDS-DONE
