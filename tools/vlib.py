"""Common machinery of the xfemm verification checks (see DESIGN.md section 2).

Verdict protocol: stage A (Lean obligations: translators -> lake build -> axiom audit),
stage B (correspondence model <-> implementation), stage P (verified oracles on real output),
stage C (search / shrink), known-findings matching, evidence writing.
"""
import fcntl, hashlib, json, os, random, re, shutil, subprocess, sys, time, struct, tempfile

ROOT = os.path.dirname(os.path.dirname(os.path.abspath(__file__)))
LEAN = os.path.join(ROOT, "lean")
REPO = os.environ.get("XFEMM_REPO", "/repo")
SCRATCH = os.environ.get("XFEMM_VERIF_SCRATCH", "/var/tmp/xfemm_verif")
ALLOWED_AXIOMS = {"propext", "Classical.choice", "Quot.sound"}
FORBIDDEN = re.compile(r"\b(sorry|admit|native_decide|bv_decide|implemented_by|unsafe)\b|^\s*axiom\s|maxHeartbeats\s+0\b", re.M)


# ----------------------------------------------------------------------------- doubles
def d2tok(d):
    return "x%016X" % struct.unpack("<Q", struct.pack("<d", float(d)))[0]


def tok2d(t):
    return struct.unpack("<d", struct.pack("<Q", int(t[1:], 16)))[0]


def ulp_diff(a, b):
    """distance in units in the last place between two doubles (inf if signs differ / nan)"""
    if a == b:
        return 0
    if a != a or b != b:
        return 0 if (a != a and b != b) else float("inf")
    ia = struct.unpack("<q", struct.pack("<d", a))[0]
    ib = struct.unpack("<q", struct.pack("<d", b))[0]
    if ia < 0:
        ia = -(ia & 0x7FFFFFFFFFFFFFFF)
    if ib < 0:
        ib = -(ib & 0x7FFFFFFFFFFFFFFF)
    return abs(ia - ib)


# ----------------------------------------------------------------------------- builds
def sh(cmd, **kw):
    return subprocess.run(cmd, shell=isinstance(cmd, str), stdout=subprocess.PIPE, stderr=subprocess.STDOUT,
                          text=True, **kw)


_build_cache = {}


def build_repo(flavour="plain"):
    """scratch copy of /repo's *working tree* built with hooks on; returns its root"""
    if flavour in _build_cache:
        return _build_cache[flavour]
    r = subprocess.run([os.path.join(ROOT, "tools", "build_repo.sh"), flavour], stdout=subprocess.PIPE,
                       stderr=subprocess.PIPE, text=True)
    if r.returncode != 0:
        raise BuildError("building /repo (%s) failed:\n%s" % (flavour, r.stderr[-3000:]))
    d = r.stdout.strip().splitlines()[-1]
    _build_cache[flavour] = d
    return d


class BuildError(Exception):
    pass


def tool(build, name):
    return os.path.join(build, "cfemm", "bin", name)


def src(build, *p):
    return os.path.join(build, "cfemm", *p)


LIBS = {
    "femm": "_b/libfemm/libfemm.a", "luacomplex": "_b/libfemm/libluacomplex.a",
    "fmesher": "_b/fmesher/libfmesher.a", "triangle": "_b/fmesher/libtriangle.a",
    "fsolver": "_b/fsolver/libfsolver.a", "esolver": "_b/esolver/libesolver.a",
    "hsolver": "_b/hsolver/libhsolver.a", "fpproc": "_b/fpproc/libfpproc.a",
    "epproc": "_b/epproc/libepproc.a", "hpproc": "_b/hpproc/libhpproc.a",
    "femmcli": "_b/femmcli/libfemmcli.a",
}


def compile_harness(name, build, libs=("femm",), san=False, extra_inc=()):
    """compile harness/cpp/<name>.cpp against the scratch build; cached inside the build tree"""
    srcf = os.path.join(ROOT, "harness", "cpp", name + ".cpp")
    h = hashlib.sha256(open(srcf, "rb").read() + open(os.path.join(ROOT, "harness", "cpp", "hexio.h"), "rb").read()
                       + repr((libs, san)).encode()).hexdigest()[:12]
    out = os.path.join(build, "_harness_%s_%s" % (name, h))
    if os.path.exists(out):
        return out
    incs = ["-I" + src(build, "libfemm"), "-I" + src(build, "libfemm", "liblua"), "-I" + os.path.join(ROOT, "harness", "cpp")]
    for d in ("fmesher", "fsolver", "esolver", "hsolver", "fpproc", "epproc", "hpproc", "femmcli"):
        incs.append("-I" + src(build, d))
    incs += ["-I" + i for i in extra_inc]
    flags = ["-O1", "-std=c++14", "-w", "-DXFEMM_VERIF"]
    if san:
        flags += ["-g1", "-fsanitize=address,undefined", "-fno-sanitize-recover=all"]
    # libs twice: static libraries with mutual references
    la = [os.path.join(build, LIBS[l]) for l in libs]
    tmp = out + ".tmp%d" % os.getpid()
    r = sh(["g++"] + flags + incs + [srcf] + la + la + ["-o", tmp])
    if r.returncode != 0:
        raise BuildError("harness %s does not compile against the current tree:\n%s" % (name, r.stdout[-3000:]))
    os.replace(tmp, out)
    return out


# ----------------------------------------------------------------------------- Lean side
class LeanLock:
    def __enter__(self):
        os.makedirs(SCRATCH, exist_ok=True)
        self.f = open(os.path.join(SCRATCH, ".lean.lock"), "w")
        fcntl.flock(self.f, fcntl.LOCK_EX)
        return self

    def __exit__(self, *a):
        fcntl.flock(self.f, fcntl.LOCK_UN)
        self.f.close()


def write_if_changed(path, text):
    try:
        if open(path).read() == text:
            return False
    except FileNotFoundError:
        pass
    os.makedirs(os.path.dirname(path), exist_ok=True)
    with open(path, "w") as f:
        f.write(text)
    return True


def lake_build(targets):
    """returns (ok, log)"""
    with LeanLock():
        r = sh(["lake", "build"] + list(targets), cwd=LEAN)
    return r.returncode == 0, r.stdout


def model_exe():
    ok, log = lake_build(["xfemm_model"])
    if not ok:
        raise BuildError("the model driver does not build:\n" + log[-3000:])
    return os.path.join(LEAN, ".lake", "build", "bin", "xfemm_model")


def strip_comments(text):
    text = re.sub(r"/-.*?-/", "", text, flags=re.S)
    return re.sub(r"--.*", "", text)


def theorem_names(lean_file):
    """fully qualified names of the theorems declared in a Properties file"""
    text = strip_comments(open(lean_file).read())
    ns = []
    names = []
    for m in re.finditer(r"^(namespace|end|theorem)\s+([^\s:({\[]+)", text, re.M):
        kw, n = m.group(1), m.group(2)
        if kw == "namespace":
            ns.append(n)
        elif kw == "end":
            if ns and ns[-1] == n:
                ns.pop()
        else:
            names.append(".".join(ns + [n]))
    return names


def lean_sources_for(module_file):
    """transitive closure of project-local imports of a Lean file"""
    seen, todo = [], [module_file]
    while todo:
        f = todo.pop()
        if f in seen or not os.path.exists(f):
            continue
        seen.append(f)
        for m in re.finditer(r"^import\s+(XfemmVerif[\w.]*)", open(f).read(), re.M):
            todo.append(os.path.join(LEAN, m.group(1).replace(".", "/") + ".lean"))
    return seen


def stage_a(prop_id, extra_modules=()):
    """build Properties/<id>.lean (after the caller regenerated Generated/*), audit axioms and forbidden
    constructs.  Returns dict(ok, obligations, discharged, axioms, problems[list of str], theorems)"""
    mod = "XfemmVerif.Properties." + prop_id
    pfile = os.path.join(LEAN, "XfemmVerif", "Properties", prop_id + ".lean")
    res = dict(ok=True, obligations=0, discharged=0, axioms=[], problems=[], theorems=[], log="")
    names = theorem_names(pfile)
    res["theorems"] = names
    res["obligations"] = len(names)
    ok, log = lake_build([mod] + list(extra_modules))
    res["log"] = log[-6000:]
    if not ok:
        res["ok"] = False
        errs = re.findall(r"error: (\S+\.lean:\d+:\d+: .*)", log)
        res["problems"].append("lake build %s failed: %s" % (mod, "; ".join(errs[:6]) or log[-800:]))
    # forbidden constructs anywhere in the transitive project-local sources
    for f in lean_sources_for(pfile):
        for m in FORBIDDEN.finditer(strip_comments(open(f).read())):
            res["ok"] = False
            res["problems"].append("forbidden construct %r in %s" % (m.group(0).strip(), os.path.relpath(f, LEAN)))
    if ok and names:
        audit = "import %s\n" % mod + "".join("#print axioms %s\n" % n for n in names)
        af = os.path.join(LEAN, ".lake", "audit_%s_%d.lean" % (prop_id, os.getpid()))
        os.makedirs(os.path.dirname(af), exist_ok=True)
        open(af, "w").write(audit)
        r = sh(["lake", "env", "lean", af], cwd=LEAN)
        os.unlink(af)
        axs = set()
        out = r.stdout
        done = 0
        for n in names:
            m = re.search(r"'%s' (does not depend on any axioms|depends on axioms: \[([^\]]*)\])" % re.escape(n), out, re.S)
            if not m:
                res["ok"] = False
                res["problems"].append("theorem %s was not found by the audit" % n)
                continue
            done += 1
            if m.group(2):
                for a in re.split(r",\s*", m.group(2).strip()):
                    a = a.strip()
                    axs.add(a)
                    if a not in ALLOWED_AXIOMS:
                        res["ok"] = False
                        res["problems"].append("theorem %s depends on axiom %s" % (n, a))
        res["discharged"] = done
        res["axioms"] = sorted(axs)
    return res


# ----------------------------------------------------------------------------- line protocol
def run_lines(argv, lines, timeout=600, env=None, cwd=None):
    """send request lines, return reply lines (and stderr, returncode)"""
    p = subprocess.run(argv, input="\n".join(lines) + "\n", stdout=subprocess.PIPE, stderr=subprocess.PIPE,
                       text=True, timeout=timeout, env=env, cwd=cwd)
    return p.stdout.splitlines(), p.stderr, p.returncode


# ----------------------------------------------------------------------------- known findings
def load_known():
    known = []
    p = os.path.join(ROOT, "KNOWN_FINDINGS.txt")
    if os.path.exists(p):
        for l in open(p):
            m = re.match(r"known:\s+property=(\S+)\s+key=(\S+)\s+(.*)", l.strip())
            if m:
                known.append((m.group(1), m.group(2), m.group(3)))
    return known


# ----------------------------------------------------------------------------- the check object
class Check:
    def __init__(self, prop_id, level, argv=None):
        self.id = prop_id
        self.level = level
        self.tier = os.environ.get("VERIF_TIER", "quick")
        if argv:
            for i, a in enumerate(argv):
                if a == "--tier" and i + 1 < len(argv):
                    self.tier = argv[i + 1]
        if self.tier not in ("quick", "thorough"):
            self.tier = "quick"
        self.seed = int(os.environ.get("VERIF_SEED", "0") or 0)
        self.rng = random.Random(self.seed * 1000003 + sum(map(ord, prop_id)))
        self.t0 = time.time()
        self.violations = []      # dicts: key, what, replay(dict)
        self.broken = []          # obligations / correspondences that no longer check (strings)
        self.broken_detail = []
        self.cov = dict(evaluations=0, distinct_nontrivial=0, samples=[], rule="")
        self.assumptions = []
        self.stageA = None
        self._distinct = set()
        self.notes = {}

    # -- counting
    def case(self, key=None, nontrivial=True, sample=None):
        self.cov["evaluations"] += 1
        if nontrivial and key is not None:
            self._distinct.add(key if isinstance(key, (str, int, tuple)) else json.dumps(key, sort_keys=True))
        if sample is not None and len(self.cov["samples"]) < 6:
            self.cov["samples"].append(sample)

    def violation(self, key, what, replay):
        """a concrete failing input on the implementation (or on model+implementation)"""
        self.violations.append(dict(key=key, what=what, replay=replay))

    def obligation_broken(self, what, detail=None):
        """a theorem / translator obligation / correspondence that no longer checks against the current tree
        (not by itself a property violation: the search for a concrete failing input decides)"""
        if what not in self.broken:
            self.broken.append(what)
            if detail is not None and len(self.broken_detail) < 3:
                self.broken_detail.append(dict(what=what, detail=detail))

    def run_stage_a(self, extra_modules=()):
        a = stage_a(self.id, extra_modules)
        self.stageA = a
        for p in a["problems"]:
            self.obligation_broken(p)
        if self.tier == "thorough" and a["ok"]:
            # independent re-check of the compiled property module by the toolchain's stand-alone checker
            with LeanLock():
                r = sh(["lake", "env", "leanchecker", "XfemmVerif.Properties." + self.id], cwd=LEAN)
            self.notes["leanchecker"] = "accepted" if r.returncode == 0 else "REJECTED"
            if r.returncode != 0:
                self.obligation_broken("leanchecker rejects XfemmVerif.Properties.%s: %s" % (self.id, r.stdout[-400:]))
        return a

    # -- finishing
    # properties whose statement is a relation the written solution must satisfy: a solver that exits 0 but writes non-finite
    # potentials for a generated, well-formed problem contradicts it, and tolerance comparisons are blind to NaN
    NONFINITE_IS_VIOLATION = {"C03", "C04", "C05", "C06", "C07", "C11", "C17", "C19"}

    def finish(self):
        rmod = sys.modules.get("runner")
        if rmod is not None and getattr(rmod, "NONFINITE", None):
            pending = [r for r in rmod.NONFINITE if not getattr(r, "nonfinite_handled", False)]
            self.cov["nonfinite_solutions_seen"] = len(rmod.NONFINITE)
            already = any("non-finite" in v["key"] or "nan" in v["key"] for v in self.violations)
            if self.id in self.NONFINITE_IS_VIOLATION and pending and not already:
                r = pending[0]
                self.violation("nonfinite-solution:%s:%s" % (r.prob.kind, getattr(r.prob, "ptype", "?")),
                               "the solver exited 0 but wrote non-finite values to %s (%d such run(s)): ... %s ..."
                               % (os.path.basename(r.solution_path()), len(pending), r.nonfinite), dict(files=getattr(r, "nonfinite_files", {})))
            del rmod.NONFINITE[:]
        known = load_known()
        rdir = os.path.join(ROOT, "replays", self.id)
        out_lines = []
        unlisted = 0
        n = 0

        def write_replay(obj):
            nonlocal n
            os.makedirs(rdir, exist_ok=True)
            n += 1
            p = os.path.join(rdir, "%s_%s_seed%d_%d.json" % (self.id, self.tier, self.seed, n))
            with open(p, "w") as f:
                json.dump(obj, f, indent=1, default=str)
            return p

        seen_known = set()
        for v in self.violations:
            hit = [k for k in known if k[0] == self.id and k[1] == v["key"]]
            if hit:
                if v["key"] not in seen_known:
                    out_lines.append("KNOWN-FINDING: property=%s %s" % (self.id, hit[0][2]))
                    seen_known.add(v["key"])
                continue
            unlisted += 1
            if unlisted <= 5:
                p = write_replay(dict(property=self.id, key=v["key"], what=v["what"], seed=self.seed, tier=self.tier,
                                      replay=v["replay"]))
                out_lines.append("VIOLATION property=%s replay=%s" % (self.id, p))
                out_lines.append("  what: %s" % v["what"][:600])
        if self.broken and unlisted == 0:
            # obligation / correspondence broken, the search found no concrete failing input
            unlisted += 1
            p = write_replay(dict(property=self.id, kind="no-failing-input-found", no_longer_checks=self.broken,
                                  first_disagreements=self.broken_detail,
                                  seed=self.seed, tier=self.tier,
                                  note="the theorem / correspondence named here no longer checks against the current "
                                       "tree; the search over model and implementation found no concrete failing input"))
            out_lines.append("VIOLATION property=%s replay=%s no-failing-input-found" % (self.id, p))
            for b in self.broken[:5]:
                out_lines.append("  no longer checks: %s" % b[:600])
        elif self.broken:
            for b in self.broken[:5]:
                out_lines.append("  also no longer checks: %s" % b[:600])
        if unlisted > 5:
            out_lines.append("  ... and %d more violations: %s" % (unlisted - 5, "; ".join(sorted(set(
                v["key"] for v in self.violations if not any(k[0] == self.id and k[1] == v["key"] for k in known)))[:40])))
        cov = dict(self.cov)
        cov["distinct_nontrivial"] = len(self._distinct)
        a = self.stageA
        if a is not None:
            cov["obligations"] = a["obligations"]
            cov["discharged"] = a["discharged"]
            cov["checker_cmd"] = "cd /verif/lean && lake build XfemmVerif.Properties.%s && lake env lean <audit: #print axioms of every theorem>" % self.id
            cov["trusted_base"] = ["Lean 4.33 kernel"] + ["axiom " + x for x in a["axioms"]] + [
                "Lean compiler/runtime for the executed model driver", "translators and harnesses under /verif/tools, /verif/harness"]
            cov["theorems"] = a["theorems"]
        cov.update(self.notes)
        if self.level == "translation_validation":
            cov.setdefault("programs", cov["evaluations"])
            cov.setdefault("disagreements_checked", len(self.violations))
        if self.level == "other":
            cov.setdefault("explanation", self.notes.get("explanation", ""))
        cov["traces_validated_against_impl"] = cov.get("traces_validated_against_impl", cov["evaluations"])
        cov["known_findings_seen"] = sorted(seen_known)
        ev = dict(property_id=self.id, tier=self.tier, seed=self.seed, level=self.level, coverage=cov,
                  assumptions=self.assumptions, wall_s=round(time.time() - self.t0, 2), violations=unlisted)
        os.makedirs(os.path.join(ROOT, "evidence"), exist_ok=True)
        with open(os.path.join(ROOT, "evidence", self.id + ".json"), "w") as f:
            json.dump(ev, f, indent=1, default=str)
        for l in out_lines:
            print(l)
        print("%s %s tier=%s seed=%d evaluations=%d distinct=%d obligations=%s/%s wall=%.1fs" % (
            self.id, "FAIL" if unlisted else "ok", self.tier, self.seed, cov["evaluations"], cov["distinct_nontrivial"],
            cov.get("discharged", "-"), cov.get("obligations", "-"), time.time() - self.t0))
        sys.stdout.flush()
        return 1 if unlisted else 0


def workdir(prefix):
    os.makedirs(os.path.join(SCRATCH, "work"), exist_ok=True)
    return tempfile.mkdtemp(prefix=prefix + "_", dir=os.path.join(SCRATCH, "work"))


def pct(s):
    """percent-encode a string for the line protocol (mirror of XfemmVerif.pctDecode)"""
    out = []
    for ch in s:
        if ch.isalnum() and ord(ch) < 128 or ch in "_-.":
            out.append(ch)
        else:
            out.append("".join("%%%02X" % b for b in ch.encode("utf-8")))
    return "".join(out) or "%00"


def same_point_set(A, B, rel=1e-9):
    """True iff the two lists of (x, y) are the same set of points up to a relative tolerance (bijection by nearest neighbour)"""
    import numpy as np
    from scipy.spatial import cKDTree
    A = np.array([[a[0], a[1]] for a in A], dtype=float)
    B = np.array([[b[0], b[1]] for b in B], dtype=float)
    if len(A) != len(B):
        return False
    if len(A) == 0:
        return True
    dist, idx = cKDTree(A).query(B)
    return len(set(idx.tolist())) == len(A) and float(dist.max()) <= rel * max(1.0, float(np.abs(A).max()))
