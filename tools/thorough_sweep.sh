#!/bin/bash
# run the thorough tier of the given checks (default: all) against a SNAPSHOT of /repo's HEAD ($VP_RUN_REPO under `vp run --with-repo`,
# else /repo itself), one after the other; prints one line per check.   usage: tools/thorough_sweep.sh [seed] [check...]
SEED="${1:-0}"; shift
CHECKS="${@:-C01 C02 C03 C04 C05 C06 C07 C08 C09 C10 C11 C12 C13 C14 C15 C16 C17 C18 C19 C20}"
HERE="$(cd "$(dirname "$0")/.." && pwd)"; cd "$HERE"
[ -n "${VP_RUN_REPO:-}" ] && export XFEMM_REPO="$VP_RUN_REPO"
(cd lean && lake build >/dev/null 2>&1)
for c in $CHECKS; do
  VERIF_SEED=$SEED python3 tools/check.py $c --tier thorough > /tmp/thorough_$c.log 2>&1
  echo "$c rc=$? $(grep -c '^VIOLATION' /tmp/thorough_$c.log) violation line(s); $(tail -1 /tmp/thorough_$c.log | cut -c1-140)"
  grep '^VIOLATION' -A1 /tmp/thorough_$c.log | head -6 | cut -c1-300
done
