#!/usr/bin/env python3
"""writes /verif/MANIFEST.json from the table below (kept in one place so it is always schema-valid)"""
import json, os, sys
ROOT = os.path.dirname(os.path.dirname(os.path.abspath(__file__)))
ALL = ["C%02d" % i for i in range(1, 21)]

COMMON_NOTE = ("Trusted: Lean 4.33 kernel; axioms propext / Classical.choice / Quot.sound only (re-audited with #print axioms on "
               "every run; sorry/admit/native_decide/bv_decide/axiom grep on every run); the Lean compiler+runtime for the executed "
               "model driver; the translators and harnesses under /verif; g++/libstdc++/libm. Theorems are about the Lean model in "
               "exact arithmetic; the model is tied to /repo's working tree on every run by the correspondence harness named in "
               "`technique` (and by regenerated Generated/*.lean where a translator exists). IEEE rounding of the C++ is observed, "
               "not proved.")

CHECKS = {
    "C09": dict(
        category="proof",
        text=("Lean theorems over the statement-by-statement model of spars.cpp (Model/Sparse.lean), for every size, sparsity pattern, "
              "insertion order and history: entry put/get/add exact and symmetric, AddTo accumulation insertion-order independent, "
              "SetValue / Periodicity / AntiPeriodicity yield exactly the constrained system (refinement of the linked-row code to "
              "abstract matrices + abstract linear-algebra equivalences), MultA (scatter over the linked upper-triangle rows) = product with the "
              "full symmetric matrix read through Get on every system any history of the matrix API (Put, AddTo, rhs writes, SetValue, Periodicity, "
              "AntiPeriodicity, real and complex) can build - the stored form is proved an invariant of the API -, hence one pass of the model's "
              "own PCGSolve / PBCGSolve body keeps recurrence residual = true residual. The model is tied "
              "to the real CBigLinProb on every run by an in-process op-sequence harness (bit comparison with the Float instance, "
              "1e-11 comparison with the exact Rat instance) and the implementation's solve results are checked against an "
              "independent dense constrained solve. The complex solver (cspars.cpp without Newton matrices) is modelled too "
              "(Model/Complex.lean = CComplex arithmetic incl. the scaled division, Model/CSparse.lean = Put/Get/AddTo/MultA/"
              "MultPC/MultAPPA/SetValue with its own scan window/Periodicity/AntiPeriodicity/PCGSQStart/PBCGSolve), tied the "
              "same way (csparse harness, Float bits and exact Rat), with theorems that Cx K under the CComplex operators is a "
              "field for every ordered field K (division exact in both branches), that the complex constraint operations are the "
              "generic ones over that field, and the constrained-system theorems for them; complex solves are checked against a "
              "dense complex constrained solve. PCG / PBCG termination and accuracy in floating point is runtime behaviour: "
              "observed, labelled partial."),
        design_ref="DESIGN.md section 3, C09",
        technique="Lean 4 proof (refinement + induction over op histories) + model/implementation correspondence over generated op sequences",
    ),
}

CHECKS["C02"] = dict(
    category="proof",
    text=("Lean theorems over Model/Markers.lean (the mesher's marker encoder and the three solvers' decoders): vertex and edge "
          "codec round-trip for every (property, conductor) pair under the explicit guard prop+2 < 0x10000 with a collision "
          "witness outside it, Triangle's own markers decode to 'none', region attribute = solver label index for every "
          "hole/label order, name lookup soundness. Tied to the code on every run: encoder via the .poly the real fmesher "
          "hands to Triangle, decoders via an in-process harness around ESolver/HSolver/FSolver::LoadMesh on real meshes and on "
          "synthetic re-markings spanning the codec range. The geometric half of the property (elements in the region of their "
          "label, marked edges/vertices exactly on their entities) is decided per run by a geometric oracle on the real mesh; "
          "Triangle's marker propagation is validated, not proved."),
    design_ref="DESIGN.md section 3, C02",
    technique="Lean 4 proof (codec round-trip, omega) + model/implementation correspondence + geometric oracle on real mesher output",
)

CHECKS["C20"] = dict(
    category="proof",
    text=("The quantifier is a finite table, so deciding the whole table is the proof: Model/Exit.lean combines exit codes, the "
          "ordered fopen guards of the three LoadMesh functions, runSolver's return values and the previous-solution guard — "
          "all regenerated from the current source by tools/translate_exit.py on every run — and Properties/C20.lean decides "
          "(decide, kernel) for each solver that over all 2^9 input combinations exit status 0 with output <=> every input "
          "is present, and otherwise a non-zero exit without output and no unguarded continuation; plus fmesher's main. "
          "Tied to the binaries by exhaustive fault enumeration on the real tools (every tool x every file it reads x "
          "{absent, unreadable via setpriv}, analysis preconditions, previous solution, unwritable output, femmcli "
          "open/analyze/loadsolution/script): each execution is compared with the model's prediction and judged by the "
          "property's own oracle (exit status, signal, freshness of output files)."),
    design_ref="DESIGN.md section 3, C20",
    technique="Lean 4 proof by decide over the complete decision table regenerated from source + exhaustive fault enumeration on the binaries",
)

CHECKS["C15"] = dict(
    category="proof",
    text=("Model/Refs.lean is the state machine of property references as the Lua commands manipulate them (property vectors, "
          "entities holding (index, name), name->index map = last match, save by index, consistencyCheckOK gate); ghost "
          "identities make 'the same property' expressible. Properties/C15.lean proves by induction over ALL histories of "
          "add / delete / rename / assign that the property a saved slot designates is exactly the one its last assignment "
          "resolved to, or none once that property is deleted; that saved indices are always in range; that only an "
          "assignment ever re-binds a slot; plus a decide-witness that the code before the repair violated it. Tied to the "
          "code by running histories (exhaustive to depth 3/4 over a reduced alphabet, random to length 40 over all four "
          "property kinds and three physics) as Lua scripts through the real femmcli and comparing the saved files "
          "(independent parser) with the model, and judged by an identity-tracking oracle independent of the model; histories "
          "that re-define an existing name are judged by names. PARTIAL (decided per run only): the clause 'analysis uses exactly "
          "that association or refuses' - electrostatic histories are analysed in the session that built them and the saved "
          "file is analysed in a fresh session; the potentials next to every entity tell which property each analysis applied. "
          "Known finding: a name assigned before a property of that name exists is used by the in-session mesher, not by the "
          "saved file."),
    design_ref="DESIGN.md section 3, C15 and section 0.9",
    technique="Lean 4 proof (invariant by induction over operation histories, refinement to ghost identities) + model/implementation correspondence over exhaustive and random Lua edit histories",
)

CHECKS["C03"] = dict(
    category="proof",
    text=("Model/ESolver.lean follows ESolver::AnalyzeProblem statement by statement (prescribed-value bookkeeping, Allaire element "
          "matrices, charge and boundary terms, elimination of prescribed nodes, floating-conductor folding, point charges, "
          "(anti)periodic calls, conductor rows); its Float instance reproduces the system the REAL solver hands to PCGSolve "
          "bit for bit (guarded hook dump) on every generated problem of every run. Properties/C03.lean proves over any field: "
          "element matrix = Galerkin gradient form of -int eps grad u . grad phi_j, symmetric, zero row sums; element gradient "
          "exact for affine fields; closed form of the elimination of prescribed nodes for all 8 patterns and preservation of "
          "the free-row equations; exact order-independent accumulation (via C09). The global statement 'solution <=> weak "
          "form at every free node, prescribed values, floating conductors, reported charges' is decided per run by an "
          "independent SI-unit assembly (numpy) of the Galerkin equations from the drawn problem and the .res file the real "
          "esolver wrote (labelled partial: not a theorem); the true solver residual is checked too. The node renumbering all three "
          "solvers apply first (libfemm/cuthill.cpp) is Model/Cuthill.lean: Properties/C03.lean proves, for every graph over at least "
          "two nodes, that the numbering loop never reaches an out-of-range read, ends within N passes and ends with a bijection of "
          "the node indices (cuthill_numbering_total_and_bijective); the model is compared with the real solvers on every solved "
          "problem of C03 / C04 / C05 (position of every node and the whole element list of the solution file, exact)."),
    design_ref="DESIGN.md section 3, C03 and section 0.9",
    technique="Lean 4 proof (element-level refinement to the Galerkin form, ring/field_simp) + bit-exact model/implementation correspondence on the assembled system + independent weak-form oracle on solver output",
)

CHECKS["C04"] = dict(
    category="proof",
    text=("Lean theorems over Model/Heat.lean and the shared element model: the conductivity table GetK is clamped outside the "
          "table, exact at its knots, continuous across them and bounded by the neighbouring knot values; the radiation "
          "boundary linearisation equals the Stefan-Boltzmann flux at a fixed point of the iteration; convection and lumped "
          "transient terms; the element stiffness / elimination / accumulation theorems of C03 apply to the heat assembler "
          "verbatim (same element matrix with k in place of eps). GetK is tied to CHMaterialProp::GetK bit for bit on every "
          "run (in-process harness). The global property (free-node equations with k at the converged temperatures, all "
          "boundary types 0-3, conductors, reported heat flows, transient steps from a previous solution) is decided per run "
          "by an independent nonlinear SI assembly evaluated at the temperatures the real hsolver wrote. The WHOLE assembly of "
          "one pass of HSolver::AnalyzeProblem (Model/HSolver.lean: conductivity averaging over the previous iterate, lumped "
          "transient term, heat generation, flux / convection / radiation edges planar and axisymmetric, elimination of "
          "prescribed nodes, floating-conductor folding, point sources, (anti)periodic ties, conductor rows) is compared bit "
          "for bit with the system the real solver hands to PCGSolve in EVERY pass of its nonlinear loop (up to four per problem; "
          "pass k about the iterate dumped after pass k-1 by the hook), and its boundary-term "
          "functions are proved to balance at the ambient temperature, to carry the exact edge integrals and to reproduce "
          "Stefan-Boltzmann at the linearisation point. PARTIAL: Picard convergence is runtime behaviour (known finding: "
          "radiation runaway with extreme sources)."),
    design_ref="DESIGN.md section 3, C04",
    technique="Lean 4 proof (ordered-field lemmas on the k(T) table, ring identities, shared element-level refinement) + GetK correspondence + independent nonlinear weak-form oracle on solver output",
)

CHECKS["C05"] = dict(
    category="proof",
    text=("Lean theorems over Model/Magnetics.lean and the shared element model: laminated-material permeabilities are the "
          "parallel / series combinations of iron and air and reduce to the bulk values at fill 1; the current density a "
          "circuit applies reproduces the circuit current exactly for stranded (flat density) and conducting (density "
          "proportional to conductivity) regions; the reluctivity element matrix Mx/mu2 + My/mu1 is the C03 element with "
          "unit depth (Galerkin form, symmetry, zero row sums, exactness for affine potentials); consistent-mass eddy "
          "matrix symmetric with row sums a/3. Tied to the code on every run: the permeability the REAL Static2D assigns "
          "to every element equals the Float instance of lamMu bit for bit (in-process harness). The global property "
          "(free-node equations of magnetostatics and of the time-harmonic complex system, prescribed A(x,y) with phase, "
          "magnets, point currents, mixed BC, per-label circuit records = applied density, total current per circuit "
          "region) is decided per run by an independent SI assembly on the .ans the real fsolver wrote. The WHOLE first pass "
          "of Static2D and of StaticAxisymmetric (Model/MSolver.lean: circuit integrals and the voltage-gradient / flat-density "
          "decision, element matrices Mx My Mxy, mixed boundary terms, current-density and magnetisation sources, "
          "first-pass permeabilities, AddTo accumulation, point currents, prescribed potentials at points and along "
          "segments in cartesian and polar form through SetValue, (anti)periodic ties) is compared bit for bit with the "
          "system the real solver hands to PCGSolve (hook dump), and its permeability, circuit-case and prescription "
          "functions are proved equal to the laws above; for the axisymmetric model the absolute 1e-6 cm thresholds that select "
          "the closed forms of R_hat are stated as theorems (mechanism of the C10 known finding). The WHOLE first pass of Harmonic2D "
          "(Model/MHarmonic.lean over the complex scalar of Model/Complex.lean: complex circuit integrals and the three circuit "
          "cases incl. the extra row / column of an unknown voltage gradient, complex effective permeabilities with hysteresis lag "
          "and the tanh(K)/K lamination factor, proximity-effect permeability taken from the label, eddy mass term, mixed and "
          "small-skin-depth boundary terms, complex sources, prescribed complex potentials, circuit-row diagonal fix, ties) is "
          "compared the same way with the system handed to PBCGSolveMod, on the generated harmonic problems and on variants with "
          "lag angles, laminations, stranded regions and small-skin-depth boundaries (whose solutions the SI oracle, extended with "
          "the documented complex permeability and skin-depth impedance, also checks); theorems: flat complex density reproduces "
          "the circuit current, conducting circuits get their own unknown, eddy coefficient -j a w sigma c/12 / zero in laminated "
          "and wound regions, static limit of the complex permeability, prescribed potential (a/c)(cos phi + j sin phi); element level: the "
          "eddy block is -j w sigma c times the consistent mass matrix a/12 [2 1 1; 1 2 1; 1 1 2], the stiffness part Mx/mu2 + My/mu1 + Mxy v12 "
          "is complex-symmetric, is the reluctivity form and annihilates constants (a uniform potential produces no flux). PARTIAL: "
          "the axisymmetric time-harmonic assembly, later Newton / successive-approximation passes, air-gap elements, incremental "
          "materials and GetFillFactor's curve fits are outside the model."),
    design_ref="DESIGN.md section 3, C05",
    technique="Lean 4 proof (field identities for lamination and circuit formulas, shared element-level refinement, complex field) + whole-assembly correspondence (Static2D, StaticAxisymmetric, Harmonic2D first pass, bit for bit) + independent weak-form oracle (static and complex harmonic) on solver output",
)

CHECKS["C08"] = dict(
    category="other",
    text=("C++ memory safety and absence of undefined behaviour are not a theorem about a model; the Lean part "
          "(Properties/C08.lean over Model/VecIter.lean: vectors with capacity and buffer generation) proves the anchored "
          "LOGIC mechanisms — the range-for + push_back loop shape of the copy operations reaches a stale-iterator "
          "dereference (witness and general statement), the indexed loop over the original size is safe for every vector, "
          "capacity and selection, a clamped cached index is always in range. The property itself is decided on the real "
          "code by runtime evidence: every scenario family of the other checks (generated problems of all physics through "
          "mesher and solvers, periodic arc cells, transient heat steps, Lua sessions analysing / loading / querying several "
          "problems in a row, Lua edit scripts with copy / mirror / rotate) runs on an ASan+UBSan build of xfemm's own C++, "
          "a subset under valgrind memcheck (uninitialised reads), and tool runs are repeated and byte-compared. Partial by "
          "nature: sanitizers observe the executions that ran."),
    design_ref="DESIGN.md section 3, C08",
    technique="runtime evidence (ASan/UBSan build, valgrind memcheck, determinism by repeated runs) over the scenario families of all checks + Lean 4 proofs of the anchored iterator-invalidation / index-clamp logic",
    note=("Not a proof of memory safety. Trusted: the sanitizers and valgrind; Triangle (third-party C) is excluded from "
          "instrumentation. Lean part: kernel + propext/Classical.choice/Quot.sound only."),
)

CHECKS["C06"] = dict(
    category="proof",
    text=("Patch theorem in Lean (Properties/C06.lean on top of C03's element theorems), for every mesh: for an affine exact "
          "solution the element gradient is exact on every non-degenerate triangle, each element's contribution to a nodal "
          "equation is a flux term through the opposite side, and around a closed fan of elements with one coefficient tensor "
          "these terms cancel — the interpolant of the affine field satisfies every interior nodal equation exactly. The "
          "element model these theorems are about is the one tied bit-exactly to ESolver (C03). Decided per run on the REAL "
          "tools: closed-form families with random dimensions / constants / units / depths / mesh sizes / smart-mesh settings "
          "(plates with side-by-side dielectrics, slab with convection, uniform B across side-by-side permeabilities; planar, "
          "axisymmetric, static and time-harmonic): every nodal value vs the closed form to solver precision, and stored "
          "energy, conductor charge, heat flux and field values through the real post-processor. The convergence half "
          "(non-affine classics: coaxial capacitor at two mesh sizes) is an error-decrease test, not a proof (labelled). The stiffness part of "
          "the time-harmonic magnetics model (MHarmonic.harmStiff, tied bit for bit to Harmonic2D) is proved to BE the shared element over "
          "the complex field with the complex reluctivities as coefficients, so the patch theorems hold for it too."),
    design_ref="DESIGN.md section 3, C06",
    technique="Lean 4 proof (patch theorem: telescoping flux sums over a closed element fan, on the element model tied to the code in C03) + closed-form families executed on the real mesher / solvers / post-processor",
)

CHECKS["C10"] = dict(
    category="proof",
    text=("Translator tools/translate_units.py regenerates Generated/Units.lean on every run: all twelve length-unit tables of "
          "the three solvers and the post-processors as exact rationals. Properties/C10.lean decides over the whole table that "
          "they are the same six lengths in mm / cm / m (any edited entry breaks the obligation) and proves the scaling laws "
          "of the element model tied to the code in C03: planar stiffness scale-free, areas s^2, source terms s^2, hence "
          "boundary-driven potentials invariant and source-driven potentials ~ s^2. Decided on the REAL tools by metamorphic "
          "runs: one drawing per (physics, drive mode, planar / axisymmetric / harmonic) declared with the same numbers in "
          "all six units — mesh files byte-identical, coordinates reported in the declared unit, nodal values, point values, "
          "block integrals (energy, area, volume) and conductor / circuit properties related to the metres run by the "
          "dimensional law (observed agreement 1e-12)."),
    design_ref="DESIGN.md section 3, C10",
    technique="translator-regenerated unit tables + Lean 4 proof (decide over the tables, ring/field_simp scaling laws) + six-unit metamorphic runs on the real tools",
)

CHECKS["C11"] = dict(
    category="proof",
    text=("Lean theorems (Properties/C11.lean), over any field and hence for the real and the complex-symmetric systems alike: "
          "solutions of K x = b superpose when K does not depend on the excitation; zero excitation is solved by the zero field; "
          "for symmetric K the reaction collected on terminal j in the field of a unit value on i equals the reaction on i in the "
          "field of j (capacitance / conductance / inductance matrices symmetric); the element source terms of the model tied to "
          "the code are linear and the stiffness element is independent of the excitation; the same statements are proved about the matrices "
          "the solver models store (Sparse.get M, symmetric by construction: no symmetry hypothesis left), in particular about the "
          "complex-symmetric systems of the time-harmonic formulations over the scalar Cx K (complex mutual couplings are symmetric). "
          "Decided on the REAL tools for every formulation, including those without an independent assembly oracle "
          "(axisymmetric magnetostatics, time-harmonic planar and axisymmetric): triples of runs (S1, S2, a*S1+b*S2) and a "
          "zero-excitation run on the identical mesh compared node by node, reciprocity pairs through the real "
          "post-processor, and harmonic solves at vanishing frequency against the static ones (solid materials, in-plane laminations "
          "with a thickness, and fill factors without a thickness - the last a recorded known finding; the laminated pairs found "
          "the StaticAxisymmetric permeability defect repaired in 1be5920)."),
    design_ref="DESIGN.md section 3, C11",
    technique="Lean 4 proof (abstract linear algebra: superposition, symmetric bilinear form => reciprocity) + run triples / reciprocity pairs on the real tools in all eight formulations",
)

CHECKS["C13"] = dict(
    category="proof",
    text=("Lean theorems over Model/PostInt.lean (block selection = toggling flags, group toggles, extensive integral = sum "
          "over the elements of the selected labels) and the abstract systems of C11: integrals over a union of disjoint "
          "selections add, the result depends on the selected set only, two selections commute and a double selection is a "
          "no-op; stored energy = half the sum of terminal value x reaction when no free row carries a source (W = 1/2 sum "
          "V q) and = half of A.f for zero prescribed values (W = 1/2 int A.J). Tied to the real post-processors by "
          "selection sequences (blocks, groups, clears, repeats) run through femmcli whose area / energy integrals must be the "
          "sum over exactly the labels the model leaves selected; for electrostatics the integrands themselves are modelled "
          "(Model/PostIntE.lean: element field, stored D, recovered E, energy / area / volume contribution, same operation "
          "order) and every area / volume / energy integral femmcli prints is compared with the model fed the solution-file "
          "mesh (4e-15), with theorems that the energy integrand is the element's field energy density (non-negative) and the "
          "element field minus the gradient of an affine potential; for heat flow likewise (Model/PostIntH.lean: conductivity pair "
          "GetK incl. the k(T) table, element mean, stored flux density, recovered gradient, averages of temperature / gradient / "
          "flux divided by the selected volume with the complex division of the C++; area, volume and the three averages compared "
          "at 4e-15; theorems: flux = conductivity x gradient per component, recovered gradient = gradient, average x volume = "
          "volume integral); for planar magnetostatics likewise (Model/PostIntM.lean: element flux density, element current density from "
          "the block source and the circuit record of the solution file, the quadrature PlnInt, DoEnergy of linear materials with the "
          "three lamination types; A.J, int A, energy, coenergy, area, current, int Bx, int By, volume compared at 4e-15; theorems: PlnInt "
          "is a symmetric bilinear form and exact for constant densities, energy density = B.H/2 with the solvers' laminated "
          "permeabilities, element flux density = curl of an affine potential). Decided on the real tools for all three physics, planar and "
          "axisymmetric: additivity over random subsets and orders (1e-15), block area / volume vs the drawn regions and "
          "revolved volumes (1e-15), contour length vs drawn length, electrostatic energy vs half sum V*q (1e-12), "
          "magnetostatic energy vs half int A.J and coenergy (linear laminated materials included); resistive / lamination / total losses "
          "and time-harmonic magnetics problems (complex integrals) are part of the additivity check; every requested integral must "
          "come back as a number."),
    design_ref="DESIGN.md section 3, C13",
    technique="Lean 4 proof (fold additivity, toggle laws, energy identities by the symmetric bilinear form) + selection-sequence correspondence + identities checked on the real post-processors",
)

CHECKS["C12"] = dict(
    category="proof",
    text=("Translator tools/translate_locate.py reads the outward-search loop headers of PostProcessor::InTriangle and "
          "FPProc::InTriangle into Generated/Locate.lean. Lean theorems over Model/Locate.lean: with that many rounds the "
          "hi/lo search started from ANY previous hit probes EVERY element of a mesh of any size (so the result does not "
          "depend on the query history); the node-index-ordered side test evaluates one expression per shared edge, so a "
          "point is never rejected by both neighbours in any totally ordered arithmetic (no gaps on edges); the interpolant "
          "returns the nodal value at nodes, reproduces affine fields exactly and is single-valued on a shared edge "
          "(continuity). Tied to the code by running Model/Locate.lean's interp at Float against the values the real "
          "post-processors return. Decided on the real tools (electrostatics, heat, planar magnetics static and time-harmonic - complex potentials, both parts - smoothing off) by an "
          "exact rational oracle on the solution-file mesh: found <=> the point is in the closed meshed region; value = exact "
          "barycentric interpolant; field = gradient / curl of it; flux density = field scaled by the block's material (D = eps E with "
          "energy density D.E/2, F = k G, H = B/(mu mu0) with B.H/2 and the laminated permeability); material data = those of the block; over all ordered "
          "(previous hit, next element) pairs of small even/odd meshes and shuffled sequences of centroids, edge points, "
          "adversarial edge points (those a position-ordered side test loses in doubles), nodes, points ulps off nodes, "
          "near-boundary, hole and outside points."),
    design_ref="DESIGN.md section 3, C12",
    technique="Lean 4 proof (search coverage by arithmetic on the translated loop bound, edge consistency, interpolation laws) + translator + Float correspondence + exact-arithmetic point-location oracle on the real post-processors",
)

CHECKS["C19"] = dict(
    category="proof",
    text=("Lean theorems over Model/BHCurve.lean (GetH / GetdHdB / GetEnergy / GetBHProps piecewise cubic evaluation, the "
          "spline equations, bad-segment test, smoothing repair and fill-factor transform of GetSlopes): the cubic takes the "
          "table values and slopes at every knot of any increasing table (H and its slope single-valued: C1), the energy "
          "pieces and the tail join continuously; over the reals the reported slope IS the derivative of the reported H and "
          "the energy has the reported H as derivative inside and beyond the table (so it is the integral of H dB); a segment "
          "that passes the closed-formula root test of GetSlopes carries a non-decreasing H (intermediate-value + mean-value "
          "argument); on a straight-line table the constant slope solves the spline equations and H, slope, energy and "
          "(v, dv) are exactly those of the linear material. Tied to the code by running the real CMSolverMaterialProp "
          "in-process against the model at Float: evaluation bit for bit on the implementation's final table, the model's whole "
          "construction loop ending on the same table (same smoothing passes), the implementation's slopes in the model's "
          "spline equations. Decided on the real code by exact / cubic-exact oracles (rational minimum of the slope polynomial "
          "per segment, Richardson derivative, Simpson integral, knots +-1 ulp, tail) over nine table shapes x lamination x "
          "fill, construction time limit, and through the real fsolver: straight-line tables vs linear material (potentials, "
          "energy) and termination on saturating tables. PARTIAL: termination of the smoothing loop and of the Newton "
          "iteration is observed with a time limit, not proved; harmonic effective curves are not modelled."),
    design_ref="DESIGN.md section 3, C19",
    technique="Lean 4 proof (Hermite identities by ring, HasDerivAt for slope and energy, IVT/MVT monotonicity from the root test, linear reduction) + bit-exact Float correspondence with CMSolverMaterialProp + exact-arithmetic oracles on the real code and paired fsolver runs",
)

CHECKS["C14"] = dict(
    category="proof",
    text=("Translator tools/translate_filekeys.py regenerates, from the current C++, the key->member map of every fromStream, "
          "the key->member map of every toStream, the member->source map of every copy-constructor chain (12 property "
          "classes of the three file types), the problem-level keys the reader stores / the writer writes per file type, and "
          "the stream precision. Lean theorems over Model/FileCodec.lean: if the write map is read back member for member, "
          "has no duplicates, covers every member the reader stores and the copy constructors carry every such member, then "
          "load(save(x)) returns every stored member (load_print) and save(load(save(x))) = save(x) (save_idempotent); the "
          "hypotheses are discharged for the current source by kernel evaluation on the generated tables "
          "(all_classes_ok, top_keys_*), so a dropped / renamed / cross-wired key or a member forgotten in a copy constructor "
          "breaks a named theorem; a quoted name survives parseString whatever it contains and whatever follows the closing "
          "quote; 17 digits; mesh-size <-> area conversion. Tied further by running the real parseString against the model. "
          "Decided on the real tools with an independent reader: generated problems with every field set (extreme doubles, "
          "names with blanks / quotes / = / brackets, 0..many properties, B-H / T-k tables, dT, previous solution, smart-mesh "
          "switches), LF and FEMM-4.2 style (CRLF, odd spacing), loaded and saved twice by femmcli: same meaning, second save "
          "byte-identical, the saved file meshed and solved by the real tools gives the same solution; fmesher rewriting the "
          "input of periodic problems keeps its meaning. PARTIAL: the positional geometry rows are covered by the oracle only."),
    design_ref="DESIGN.md section 3, C14",
    technique="Lean 4 proof (generic block-codec round-trip + idempotence, hypotheses discharged by decide on tables translated from the C++; string-literal codec) + translator + parseString correspondence + independent-reader oracle on files saved by the real tools",
)

CHECKS["C17"] = dict(
    category="proof",
    text=("Translators tools/translate_lua.py (every addFunction registration of the four Lua command files; argument -> member "
          "map of the twelve xi_add*prop handlers) and tools/translate_filekeys.py (member -> file key of every toStream) "
          "regenerate the CODE side from the current C++. The SPEC side (documented argument order as documented file keys; the "
          "documented model-building command set) is written in Properties/C17.lean. Proved by kernel evaluation on the "
          "translated tables: every argument of every add-property command lands in the saved file under its documented key "
          "(args_land_under_documented_keys: composition argument -> member -> key), every command registered with "
          "underscores is also registered without, with the same handler (both_spellings_registered), every documented "
          "command needed to build, analyse and query a model is registered for every physics "
          "(model_building_commands_registered). Decided on the real tools: generated problems of the three physics written "
          "both as a file and as a Lua command sequence (random registered spelling per command; 2-3 problems built and "
          "analysed one after another per script): the file saved by xi_saveas equals the file twin in meaning (independent "
          "reader), xi_analyze + xi_loadsolution from the script give the same triangulation (nodes matched by coordinates), "
          "potentials (1e-7), point values, integrals and conductor / circuit values (1e-5) as the stand-alone mesher / solver "
          "on the file. PARTIAL: probdef, set*prop and geometry commands are covered by the end-to-end comparison only."),
    design_ref="DESIGN.md section 3, C17",
    technique="Lean 4 proof (decide on tables translated from the C++ against a documented-order spec written in Lean: argument->member->key composition, both spellings, required command set) + two translators + end-to-end Lua-vs-file comparison on the real tools",
)

CHECKS["C07"] = dict(
    category="proof",
    text=("Lean theorems over Model/Periodic.lean (the mesher's identical subdivision of the two partners and its pair list) and "
          "Model/Sparse.lean: the pair list of k subdivisions has k+1 entries whose first / second components are exactly the "
          "node chains of the first / second partner, each node once; the j-th interior node of the second partner is the image "
          "of the j-th of the first under ANY affine map taking end points to end points (so under the rigid motion mapping the "
          "two), for every k; nodes created on an arc lie on its circle, consecutive chords are equal, and the nodes of the "
          "second arc are the images of the first's under the rigid motion; self pairs (apex of a rotational cell): "
          "AntiPeriodicity(i,i) cuts row and column i out of the system with a zero right-hand side (value 0 = -0), "
          "Periodicity(i,i) is the identity; with the C09 theorems that the solution of the modified system is equal / opposite "
          "on every tied pair i != j. Tied to the code by comparing the interior nodes of straight partners in the real .node / "
          ".pbc with the model at Float, bit for bit. Decided on the real mesher and solvers: translational cells (one pair, two "
          "pairs sharing corners), rotational sectors (apex self pair, shaft hole), congruent arc sides x three physics x "
          "periodic / antiperiodic: every mesh node on a partner listed exactly once against its image under the drawn rigid "
          "motion with the right sign, nothing else listed, solved potentials of every listed pair equal / opposite (1e-6; "
          "self pairs exactly), invalid assignments rejected."),
    design_ref="DESIGN.md section 3, C07",
    technique="Lean 4 proof (pair-list bookkeeping by list lemmas, affine-image and rotation identities by ring, self-pair row isolation over the sparse model) + bit-exact Float correspondence of subdivision nodes + geometric pairing oracle and solution-repeat check on the real mesher and solvers",
)

CHECKS["C01"] = dict(
    category="proof",
    text=("Lean theorems over Model/Discretize.lean (what the mesher computes around the external call of Triangle): every drawn "
          "point is a vertex of the graph handed to Triangle under its own index with exactly its coordinates; every drawn line "
          "is handed over as a chain of k pieces forming a path from its first to its second end point whose intermediate "
          "vertices are the points of the line at the parameters (j+1)/k in (0,1), in order; every arc as the chain of its equal "
          "chords with vertices on its circle (with C18 / C07); orientation lemmas behind the certificate (cyclic invariance, "
          "swap flips, two counter-clockwise triangles sharing an edge lie on opposite sides of it). Tied to the code by "
          "comparing the chord vertices of arcs in the real .node files with the model at Float (centre by getCircle, "
          "successive turns), bit for bit. PARTIAL: Triangle's constrained Delaunay refinement is an external call, assumed to "
          "return a conforming triangulation of that graph; decided per run by an exact-arithmetic certificate of the real mesh "
          "files (indices in range, every element counter-clockwise and non-degenerate by exact orientation, every edge in at "
          "most two elements and in opposite senses, total element area = area enclosed by the boundary loops exactly, every "
          "drawn point a mesh node at exactly its coordinates, every drawn line a chain of mesh edges, every arc the chain of "
          "its prescribed equal chords) over nested rectangles, holes, circles and periodic cells (line and arc partners, "
          "single-chord arcs) x three file types x mesh-size / min-angle / smart-mesh settings."),
    design_ref="DESIGN.md section 3, C01",
    technique="Lean 4 proof (graph construction: list indexing, chain-is-path induction, cut points by field arithmetic, orientation lemmas) + bit-exact Float correspondence of arc vertices + exact rational mesh certificate on the real mesher output (Triangle assumed, checked per run)",
)

CHECKS["C18"] = dict(
    category="proof",
    text=("Lean theorems over Model/Discretize.lean: a line cut into k parts has equal parts of length len/k, which is at most the "
          "requested maximum whenever len <= k*m (what k = ceil(len/m) guarantees), cut points on the line strictly between "
          "the end points in increasing order; an arc's cut points lie on its circle, chords are equal (C07), k turns by the "
          "k-th part compose to the turn by the whole span so the chain ends at the second end point; getCircle's centre is "
          "equidistant from both end points; the pieces form a path; a block label gets the user's area whenever one is set "
          "(or the smaller forced default) and that area is the circle of the requested diameter (C14). Tied to the code by the "
          "bit-exact arc vertices (shared with C01) and the area-constraint rule run through the model. PARTIAL: Triangle is "
          "assumed to respect the area and angle bounds; decided per run on the real mesh files: exact element areas <= pi d^2/4 "
          "of their label, every mesh edge on a spaced line <= its maximum, every non-periodic arc exactly ceil(a/m) equal "
          "chords (model vertices, refinement only on the chords), smallest angle >= MinAngle on drawings without acute "
          "angles. Known findings (periodic problems only): boundary arcs are re-spaced finer than asked for; angle and area "
          "bounds are not met next to the boundary because the second pass forbids new boundary points."),
    design_ref="DESIGN.md section 3, C18",
    technique="Lean 4 proof (equal parts and ceiling bound over ordered fields, rotation composition, centre equidistance, path induction, area-constraint case analysis) + bit-exact Float correspondence of arc vertices + exact-area / spacing / angle oracle on the real mesher output (Triangle assumed, checked per run)",
)

CHECKS["C16"] = dict(
    category="proof",
    text=("Translator tools/translate_edit.py reads from FemmProblem::deleteSelectedNodes how the lines / arcs attached to a doomed "
          "point are marked (TOGGLE or SET) and that the erase / renumbering statements are there. Lean theorems over "
          "Model/Edit.lean (deleteSelectedNodes / Segments / ArcSegments as list operations with index renumbering): for every "
          "drawing and every selection, with the SET marking, deleting the selected points keeps every remaining line and arc "
          "joining two DISTINCT EXISTING points (deleteNodeAt_wf, deleteSelectedNodes_wf by induction over the scan) and the "
          "SAME two points as before (deleteNodeAt_keeps_ends: faithful renumbering); nothing of the deleted kind stays "
          "selected; the TOGGLE marking is refuted by a witness (toggle_breaks_wf); the property theorem is stated for the "
          "marking the current source uses. Tied to the code by running the model on the drawing and selection of every "
          "delete-points operation of the sequences and comparing the surviving points / lines / arcs with what femmcli saved. "
          "PARTIAL: the geometric clauses are decided per run - random sequences of add-point / line / arc / label, select + "
          "delete (each kind, everything, a point with its own line), translate / rotate / scale moves, copies, mirror, "
          "create-radius with coincident, near-miss, collinear and crossing placements through the real femmcli; after every "
          "operation: snap rule of added points, points apart, lines / arcs join two distinct existing points, no duplicates, "
          "no proper crossing of two lines (exact arithmetic), no point inside a line, no label on a point or line, deletions "
          "never change what a survivor joins, nothing left selected after selection-consuming operations; after a rebuilding "
          "operation no two points closer than the snap tolerance of the drawing; arcs cross arcs and lines only at points; "
          "copies of arcs land at the transformed coordinates in the right sense; the arc made by create-radius inherits "
          "boundary property and group. The point maps of the copy commands are Model/EditGeom.lean (CComplex operators in "
          "the order of mirrorCopy / rotateCopy / translateCopy): proved over any ordered field that a reflection reverses "
          "orientation (so the mirror copy of an arc must swap its end points - repaired defect) and that reflection, rotation "
          "and translation keep distances; its Float instance is compared bit for bit with the end points of copied arcs in "
          "saved drawings. Known findings: a line drawn through an existing block label leaves the label on the line; two "
          "histories on drawings with many crossing arcs (duplicate line after scale, unsplit point next to the end of a line)."),
    design_ref="DESIGN.md section 3, C16 and section 0.9",
    technique="Lean 4 proof (list / index renumbering invariants by induction over the deletion scan, witness refuting the toggle variant, property stated for the variant translated from the C++) + translator + model-vs-femmcli correspondence on delete operations + exact-arithmetic drawing invariants after every operation of random edit sequences",
)

NOT_YET = "check not built yet in this round; planned per DESIGN.md section 3 (Lean model + correspondence)"


def main():
    checks = []
    for pid in ALL:
        if pid not in CHECKS:
            continue
        c = CHECKS[pid]
        checks.append(dict(
            property_id=pid,
            quick_cmd="python3 tools/check.py %s --tier quick" % pid,
            thorough_cmd="python3 tools/check.py %s --tier thorough" % pid,
            evidence_file="evidence/%s.json" % pid,
            replay_cmd_template="python3 tools/check.py %s --replay {path}" % pid,
            engine="lean-model+correspondence",
            level_claimed=dict(category=c["category"], text=c["text"], design_ref=c["design_ref"]),
            level_note=c.get("note", COMMON_NOTE),
            technique=c["technique"],
        ))
    na = [dict(property_id=p, reason=NOT_APPLICABLE.get(p, NOT_YET)) for p in ALL if p not in CHECKS]
    man = dict(
        version=1,
        setup_cmd="cd lean && lake build && cd .. && tools/build_repo.sh plain >/dev/null",
        hooks=dict(guard="XFEMM_VERIF",
                   enable="tools/build_repo.sh plain|san: scratch copy of /repo's working tree configured with "
                          "-DEXTRA_CMAKE_CXX_FLAGS=-DXFEMM_VERIF",
                   baseline_off_cmd="tools/baseline_off.sh",
                   source_commits=HOOK_COMMITS, add_only=True),
        engines=[dict(name="lean-model+correspondence", path="lean/ tools/ harness/ checks/",
                      serves_properties=sorted(CHECKS),
                      kind_free_text="Lean 4 model + theorems (lake project lean/), native line-protocol model driver "
                                     "(xfemm_model), C++ in-process harnesses against a scratch build of /repo's working tree, "
                                     "python orchestration (tools/check.py)")],
        checks=checks,
        notes="See DESIGN.md. Every check: stage A (Lean obligations rebuilt + axiom audit), stage B (model<->implementation "
              "correspondence), stage P (oracles on the implementation's output), stage C (shrink/search), KNOWN_FINDINGS.txt matching.",
        not_applicable=na,
    )
    with open(os.path.join(ROOT, "MANIFEST.json"), "w") as f:
        json.dump(man, f, indent=1)
    print("MANIFEST.json: %d checks, %d not_applicable" % (len(checks), len(na)))


NOT_APPLICABLE = {}
HOOK_COMMITS = ['9153212', '9b55d57']

if __name__ == "__main__":
    main()
