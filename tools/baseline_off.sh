#!/bin/bash
# hooks.baseline_off_cmd: build /repo's working tree with the guard OFF (no -DXFEMM_VERIF) in a scratch
# copy and run the repository's own ctest suite there.
set -uo pipefail
HERE="$(cd "$(dirname "$0")" && pwd)"
DIR=$("$HERE/build_repo.sh" off | tail -1) || exit 3
ctest --test-dir "$DIR/_b" -j8 --timeout 900 2>&1 | tail -45
exit ${PIPESTATUS[0]}
